# Engine `clck` (property C09): the real CLCKGen thread on the virtual clock.

import json

from sim.kernel import Sim, Policy
from sim.seams import ThreadingSeam, TimeSeam, FaultScript
from sim.runner import Result, rng_for, digest_of
from sim import toolkit

HYPER = 2715648
P_NOM = 4_615_000


class StubLink:
	def __init__(self, sim, ident):
		self.sim = sim
		self.ident = ident

	def send(self, payload):
		if isinstance(payload, str):
			payload = payload.encode()
		self.sim.record("ind", link=self.ident, payload=bytes(payload))


class ClckEngine:
	name = "clck"

	def setup(self):
		toolkit.tk("clck_gen")

	# ------------------------------------------------------------------ generate ------
	def generate(self, seed, prop, tier):
		rng = rng_for(seed, "plan")
		thorough = tier == "thorough"
		kind = rng.choice(["zero", "rand", "wrap", "wrap", "rand"])
		if kind == "zero":
			start = 0
		elif kind == "rand":
			start = rng.randrange(HYPER)
		else:
			start = HYPER - 1 - rng.randrange(0, 40)
		period = rng.choice([1, 2, 3, 13, 26, 51, 102, 102, 204, rng.randint(1, 204)])
		nlinks = rng.choice([0, 1, 1, 2, 3, 4])
		fk = {k: rng.random() < 0.5 for k in ("dur", "stall", "wake", "boundary", "long")}
		max_ticks = rng.choice([8, 30, 120, 400 if thorough else 150])
		ops = []
		total = 0
		nseg = rng.choice([1, 1, 2, 3, 5])
		budget_ns = max_ticks * P_NOM
		ops.append({"op": "start", "dt": rng.choice([0, 1, rng.randrange(10 * P_NOM)])})
		for s in range(nseg):
			seg_ns = budget_ns // nseg
			n_link_ops = rng.choice([0, 0, 1, 3])
			cuts = sorted(rng.randrange(1, max(2, seg_ns)) for _ in range(n_link_ops))
			prev = 0
			for c in cuts:
				if rng.random() < 0.5:
					ops.append({"op": "link_add", "dt": c - prev, "rebind": rng.random() < 0.5})
				else:
					ops.append({"op": "link_del", "dt": c - prev, "idx": rng.randrange(4), "rebind": rng.random() < 0.5})
				prev = c
			if s != nseg - 1:
				ops.append({"op": "stop", "dt": seg_ns - prev})
				ops.append({"op": "start", "dt": rng.choice([0, 1, P_NOM, rng.randrange(3 * P_NOM)])})
			else:
				ops.append({"op": "wait", "dt": seg_ns - prev})
		nt = max_ticks + 8
		durs = {}
		if fk["dur"]:
			p = rng.choice([0.05, 0.3, 1.0])
			for k in range(nt):
				if rng.random() < p:
					r = rng.random()
					if r < 0.5:
						d = rng.randrange(1, P_NOM - 1000)
					elif r < 0.7 and fk["boundary"]:
						d = P_NOM + rng.choice([-3, -2, -1, 0, 1, 2])
					elif fk["long"] or r > 0.9:
						d = rng.randrange(P_NOM, 5 * P_NOM)
					else:
						d = rng.randrange(1, P_NOM // 2)
					durs[str(k)] = d
		if rng.random() < 0.12:
			# a handler that takes seconds (hundreds of frames), so that a stop() is likely to
			# arrive while it is still running
			durs[str(rng.randrange(max(1, min(nt, 40))))] = rng.randrange(1_000_000_000, 2_600_000_000)
		faults = {}
		if fk["stall"]:
			st = {}
			for k in range(nt + 4):
				if rng.random() < 0.1:
					st[str(k)] = rng.choice([1, 1000, rng.randrange(1, P_NOM), rng.randrange(P_NOM, 3 * P_NOM)])
			faults["stall"] = st
		if fk["wake"]:
			wk = {}
			for k in range(nt + 4):
				if rng.random() < 0.1:
					wk[str(k)] = rng.choice([1, 500, rng.randrange(1, 2_000_000), rng.randrange(P_NOM, 2 * P_NOM)])
			faults["wake-latency"] = wk
		cfg = {"clck_start": start, "ind_period": period, "nlinks": nlinks,
			"clock_offset": rng.choice([0, 1, 123_456_789_012, rng.randrange(1 << 50)])}
		plan = {"engine": "clck", "seed": seed, "config": cfg, "ops": ops, "durs": durs, "faults": faults}
		if rng.random() < 0.2:
			# a second, independent generator in the same process: starting and stopping one of
			# them must not disturb the other
			cfg["second"] = {"clck_start": rng.choice([0, 7, HYPER - 5, rng.randrange(HYPER)]),
				"ind_period": rng.choice([1, 2, 51, 102]), "nlinks": rng.choice([0, 1, 2])}
			pos = sorted(rng.randrange(0, len(ops) + 1) for _ in range(rng.choice([1, 1, 2, 3])))
			on = False
			out = []
			pi = 0
			for i in range(len(ops) + 1):
				while pi < len(pos) and pos[pi] == i:
					out.append({"op": "b_stop" if on else "b_start", "dt": rng.choice([0, 1, rng.randrange(2 * P_NOM)])})
					on = not on
					pi += 1
				if i < len(ops):
					out.append(ops[i])
			plan["ops"] = out
		if rng.random() < 0.06:
			# the frame handler fails once (whatever it drives raised): the clock may die with it,
			# but if it goes on it must not hand out the same frame number again
			plan["raise"] = [rng.randrange(0, max(1, min(max_ticks, 30)))]
		return plan

	def simplify(self, plan):
		for key in ("faults",):
			for kind in list(plan.get(key, {})):
				p = json.loads(json.dumps(plan))
				del p[key][kind]
				yield p
		if plan.get("durs"):
			keys = sorted(plan["durs"], key=int)
			for half in (keys[: len(keys) // 2], keys[len(keys) // 2:]):
				if half and len(half) < len(keys):
					p = json.loads(json.dumps(plan))
					for k in half:
						del p["durs"][k]
					yield p
			for k in keys:
				p = json.loads(json.dumps(plan))
				del p["durs"][k]
				yield p
		if plan.get("raise"):
			p = json.loads(json.dumps(plan))
			del p["raise"]
			yield p
		if plan["config"].get("second"):
			p = json.loads(json.dumps(plan))
			del p["config"]["second"]
			p["ops"] = [o for o in p["ops"] if o["op"] not in ("b_start", "b_stop")]
			yield p
		c = plan["config"]
		for k, v in (("clock_offset", 0), ("nlinks", 1), ("ind_period", 1)):
			if c.get(k) != v:
				p = json.loads(json.dumps(plan))
				p["config"][k] = v
				yield p

	# ------------------------------------------------------------------ execute -------
	def execute(self, plan, prop, choices=None):
		toolkit.reset()  # fresh module objects: nothing leaks from the previous run of this process
		clck_gen = toolkit.tk("clck_gen")
		cfg = plan["config"]
		pol = Policy(rng=rng_for(plan["seed"], "sched"), picks=(choices or {}).get("picks") if choices else None)
		sim = Sim(pol)
		sim.faults = FaultScript(plan.get("faults"))
		sim.clock_offset = cfg.get("clock_offset", 0)
		durs = {int(k): v for k, v in plan.get("durs", {}).items()}
		res = Result()
		saved = []

		def patch(mod, name, value):
			saved.append((mod, name, mod.__dict__[name]))
			setattr(mod, name, value)
		from sim.seams import install_seams
		install_seams([clck_gen], patch, sim)
		toolkit.capture_logs(lambda lvl, fn, msg: sim.record("log", level=lvl, file=fn, msg=msg))
		# record timed waits / sleeps of any thread as "wait-enter"
		_orig_at = None
		try:
			all_links = [StubLink(sim, i) for i in range(8)]
			links = list(all_links[:cfg["nlinks"]])
			gen = clck_gen.CLCKGen(links, clck_start=cfg["clck_start"], ind_period=cfg["ind_period"])
			state = {"k": 0, "kb": 0}
			raise_at = set(plan.get("raise") or ())

			def handler(fn):
				k = state["k"]
				state["k"] = k + 1
				sim.record("tick", fn=fn, k=k, thread=sim.current.name if sim.current else None)
				d = durs.get(k, 0)
				if d:
					sim.sleep(d)
				if k in raise_at:
					sim.faults.fired["handler-raises"] = sim.faults.fired.get("handler-raises", 0) + 1
					sim.record("fault", what="handler-raises", k=k)
					raise RuntimeError("VP-INJECTED frame handler failure")
				sim.record("tick-end", k=k)
			gen.clck_handler = handler
			genb = None
			sec = cfg.get("second")
			if sec:
				blinks = [StubLink(sim, 100 + i) for i in range(sec["nlinks"])]
				genb = clck_gen.CLCKGen(blinks, clck_start=sec["clck_start"], ind_period=sec["ind_period"])

				def handler_b(fn):
					k = state["kb"]
					state["kb"] = k + 1
					sim.record("tick", fn=fn, k=k, gen="B", thread=sim.current.name if sim.current else None)
				genb.clck_handler = handler_b

			def controller():
				started = False
				b_on = False
				next_link = cfg["nlinks"]
				for op in plan["ops"]:
					if op.get("dt"):
						sim.sleep(op["dt"])
					o = op["op"]
					if o in ("b_start", "b_stop"):
						if genb is None or (o == "b_start") == b_on:
							continue
						sim.record("ctl", op=o[2:] + "-call", gen="B")
						before = set(x.name for x in sim.threads)
						if o == "b_start":
							genb.start()
						else:
							genb.stop()
						b_on = o == "b_start"
						sim.record("ctl", op=o[2:] + "-return", gen="B", running=bool(genb.running),
							threads=sorted(x.name for x in sim.threads if x.name not in before))
					elif o == "start":
						if started:
							continue
						sim.record("ctl", op="start-call")
						gen.start()
						started = True
						sim.record("ctl", op="start-return", running=bool(gen.running))
					elif o == "stop":
						sim.record("ctl", op="stop-call")
						gen.stop()
						started = False
						sim.record("ctl", op="stop-return", running=bool(gen.running))
					elif o == "link_add":
						if next_link < len(all_links):
							l = all_links[next_link]
							next_link += 1
							if op.get("rebind"):
								# attach by assigning a new list to the public attribute
								gen.clck_links = list(gen.clck_links) + [l]
							else:
								gen.clck_links.append(l)
							sim.record("ctl", op="link_add", link=l.ident)
					elif o == "link_del":
						if gen.clck_links:
							l = gen.clck_links[op.get("idx", 0) % len(gen.clck_links)]
							if op.get("rebind"):
								gen.clck_links = [x for x in gen.clck_links if x is not l]
							else:
								gen.clck_links.remove(l)
							sim.record("ctl", op="link_del", link=l.ident)
				sim.record("ctl", op="stop-call")
				gen.stop()
				sim.record("ctl", op="stop-return", running=bool(gen.running))
				if genb is not None:
					sim.record("ctl", op="stop-call", gen="B")
					genb.stop()
					sim.record("ctl", op="stop-return", gen="B", running=bool(genb.running))
				sim.record("ctl", op="end")

			ct = sim.spawn(controller, "ctl")
			sim.start_thread(ct)
			# bounded: a generator that cannot be stopped any more must not hang the run
			horizon = sum(int(o.get("dt", 0)) for o in plan["ops"]) + sum(durs.values()) \
				+ sum(sum(d.values()) for d in sim.faults.script.values()) + 20 * P_NOM
			sim.run(until=horizon)
			if sim.heap or any(t.state == "runnable" for t in sim.threads):
				sim.run(until=horizon + 50 * P_NOM)  # what still ticks now ticks after the final stop()
			ended = any(k == "ctl" and kw.get("op") == "end" for _, k, kw in sim.history)
			viols = check_all(sim.history, cfg, ended, sim.blocked_threads(), res.probes)
		finally:
			sim.abort()
			for mod, name, val in reversed(saved):
				setattr(mod, name, val)
			from sim.seams import uninstall_seams
			uninstall_seams()
			toolkit.release_logs()
		for v in viols:
			v["owners"] = ["C09"]
		res.violations = viols
		res.sim_ns = sim.now
		res.steps = len(sim.history)
		res.faults = dict(sim.faults.fired)
		nd = sum(1 for _, k, _kw in sim.history if k == "tick")
		if durs:
			res.faults["handler-duration"] = sum(1 for k in durs if k < nd)
		# in which order one tick serves different links is not observable (an implementation may
		# keep them in a set ordered by object address): canonical order for the digest
		canon = []
		run = []
		for ev in sim.history:
			if ev[1] == "ind" and (not run or run[-1][0] == ev[0]):
				run.append(ev)
				continue
			if run:
				canon.extend(sorted(run, key=lambda e: e[2]["link"]))
				run = []
			if ev[1] == "ind":
				run.append(ev)
			else:
				canon.append(ev)
		canon.extend(sorted(run, key=lambda e: e[2]["link"]))
		res.digest = digest_of(canon)
		res.choices = {"picks": pol.picks_out}
		shape = [(k, kw.get("op"), kw.get("late", 0) > 0 if k == "wait-enter" else None)
			for _, k, kw in sim.history if k in ("ctl", "ind")]
		res.signature = digest_of([cfg["ind_period"], cfg["nlinks"], cfg["clck_start"] > HYPER - 100,
			res.probes, shape[:200]])
		res.nontrivial = nd >= 2
		return res


# ---------------------------------------------------------------------- oracle ---------
def check_all(history, cfg, ended, blocked, probes):
	"""One generator: the recorded history as it is.  Two generators in one process: each one is
	judged on its own events (its ticks, its links' indications, the waits of its thread and the
	control calls made on it) exactly as if it ran alone."""
	sec = cfg.get("second")
	if not sec:
		return check_history(history, cfg, ended, blocked, probes)
	owner = {}   # clock thread name -> generator
	for _t, k, kw in history:
		if k == "ctl" and kw.get("gen") == "B":
			for th in kw.get("threads", ()):   # threads that appeared while the second one was started
				owner.setdefault(th, "B")
	for _t, k, kw in history:
		if k == "tick" and kw.get("thread") is not None:
			owner.setdefault(kw["thread"], kw.get("gen", "A"))
	parts = {"A": [], "B": []}
	for ev in history:
		_t, k, kw = ev
		if k in ("tick", "tick-end", "ctl", "fault"):
			if k == "ctl" and kw.get("op") == "end":
				parts["A"].append(ev)
				parts["B"].append(ev)
			else:
				parts[kw.get("gen", "A")].append(ev)
		elif k == "ind":
			if kw["link"] >= 100:
				parts["B"].append((_t, k, dict(kw, link=kw["link"] - 100)))
			else:
				parts["A"].append(ev)
		elif k == "wait-enter":
			th = kw.get("thread")
			if th == "ctl":
				continue
			parts[owner.get(th, "A")].append(ev)
		else:
			parts["A"].append(ev)
	v = check_history(parts["A"], cfg, ended, blocked, probes)
	pb = {}
	cfgb = dict(sec)
	vb = check_history(parts["B"], cfgb, True, blocked, pb)
	for x in vb:
		x["detail"]["generator"] = "second"
	probes["second-generator-ticks"] = probes.get("second-generator-ticks", 0) + pb.get("tick", 0)
	return v + vb


def check_history(history, cfg, ended, blocked, probes):
	"""C09 oracle over one recorded run.  See DESIGN.md §5/C09.  First pass with the
	tick period only known to lie in 4 615 000 ± 2 ns; if the run shows one constant period
	(ticks without any injected lateness around them), a second pass uses that exact value,
	so that even a 1 ns drift per tick is visible."""
	pr = {}
	v, seen = _check_history(history, cfg, ended, blocked, pr, P_NOM - 2, P_NOM + 2)
	if not v and len(seen) == 1:
		p = next(iter(seen))
		pr2 = {}
		v, _ = _check_history(history, cfg, ended, blocked, pr2, p, p)
		pr = pr2
		pr["exact-period-pass"] = 1
	for k, n in pr.items():
		probes[k] = probes.get(k, 0) + n
	return v


def _check_history(history, cfg, ended, blocked, probes, P_MIN, P_MAX):
	viols = []

	def bad(clause, **detail):
		if len(viols) < 5:
			viols.append({"clause": clause, "detail": detail})

	def probe(name, n=1):
		probes[name] = probes.get(name, 0) + n

	if not ended:
		bad("C09.controller-stuck", blocked=str(blocked)[:200])
	for t, k, kw in history:
		if k == "thread-death":
			if "VP-INJECTED" in str(kw.get("msg")):
				probe("clock-thread-died-of-injected-failure")
				continue
			bad("C09.thread-death", **{kk: str(v)[:120] for kk, v in kw.items()})

	start = cfg["clck_start"]
	period = cfg["ind_period"]
	links = list(range(cfg["nlinks"]))
	in_session = False
	clock_thread = None
	expect_fn = None
	k_sess = 0          # ticks seen in this session
	anchor = None       # (k_sess, S, w) of the last (re)synchronisation point
	prev = None         # (S, w, d_known) of the previous tick in this session
	sum_w = 0           # wake latencies injected since the anchor
	pending = None      # (B, w) of the last timed wait entered by the clock thread
	seg_tick = None     # fn of the tick in the current segment
	seg_inds = []
	seg_linksets = [tuple(links)]
	t_start_call = None
	p_seen = set()
	clean_prev = False
	wake_due = None     # when the clock thread's current timed wait ends
	failed = False      # an injected handler failure hit this session: the clock may be dead

	def close_segment():
		nonlocal seg_tick, seg_inds, seg_linksets
		if seg_tick is None:
			if seg_inds:
				bad("C09.ind-without-tick", inds=len(seg_inds))
		else:
			fn = seg_tick
			due = (fn % period == 0)
			got = sorted(l for l, _p in seg_inds)
			ok = False
			for ls in seg_linksets:
				want = sorted(ls) if due else []
				if got == want:
					ok = True
					break
			if not ok:
				bad("C09.ind-set", fn=fn, period=period, got=got, linksets=[list(x) for x in seg_linksets][:3])
			want_payload = b"IND CLOCK %d\x00" % fn
			for l, p in seg_inds:
				if p != want_payload:
					bad("C09.ind-payload", fn=fn, got=repr(p)[:60])
					break
			if due and got:
				probe("ind-sent", len(got))
		seg_tick = None
		seg_inds = []
		seg_linksets = [tuple(links)]

	for t, kind, kw in history:
		if kind == "ctl":
			op = kw["op"]
			if op == "stop-call" and in_session and not failed and wake_due is not None and t > wake_due:
				# it went to sleep until wake_due and nothing was heard of it since
				bad("C09.tick-missing", stop_call=t, wake_due=wake_due, ticks_so_far=k_sess)
			if op == "start-call":
				close_segment()
				wake_due = None
				failed = False
				in_session = True
				expect_fn = start
				k_sess = 0
				anchor = None
				prev = None
				pending = None
				t_start_call = t
				clock_thread = None
				probe("session")
			elif op == "start-return":
				if not kw["running"]:
					bad("C09.running-flag", after="start", running=False)
			elif op == "stop-return":
				close_segment()
				in_session = False
				if kw["running"]:
					bad("C09.running-flag", after="stop", running=True)
			elif op == "link_add":
				links.append(kw["link"])
				seg_linksets.append(tuple(links))
				probe("link-change")
			elif op == "link_del":
				links.remove(kw["link"])
				seg_linksets.append(tuple(links))
				probe("link-change")
		elif kind == "wait-enter":
			if kw["thread"] == "ctl":
				continue
			if clock_thread is None or kw["thread"] == clock_thread:
				close_segment()
				pending = (t, kw.get("late", 0))
				wake_due = t + kw.get("timeout_ns", 0) + kw.get("late", 0)
		elif kind == "fault":
			failed = True
		elif kind == "ind":
			if not in_session:
				bad("C09.ind-after-stop", t=t)
			seg_inds.append((kw["link"], kw["payload"]))
		elif kind == "tick":
			S = t
			fn = kw["fn"]
			wake_due = None
			if clock_thread is None:
				clock_thread = kw["thread"]
			if not in_session:
				bad("C09.tick-after-stop", fn=fn, t=t)
				continue
			if seg_tick is not None:
				bad("C09.two-ticks-no-wait", fn=fn)
			seg_tick = fn
			if fn != expect_fn:
				bad("C09.fn-sequence", got=fn, want=expect_fn, k=k_sess)
			if expect_fn == HYPER - 1:
				probe("hyperframe-wrap")
			expect_fn = (fn + 1) % HYPER if fn == expect_fn else (expect_fn + 1) % HYPER
			B, w = pending if pending is not None else (None, 0)
			if k_sess == 0:
				if S < t_start_call:
					bad("C09.first-tick-early", S=S)
				if B is not None and S > B + P_MAX + w:
					bad("C09.first-tick-late", S=S, B=B, w=w)
				anchor = (0, S, w)
				sum_w = 0
				clean_prev = (w == 0)
			else:
				pS, pw = prev
				# (1) no catch-up bursts
				if S - pS < P_MIN - pw:
					bad("C09.tick-spacing", k=k_sess, fn=fn, delta=S - pS, prev_late=pw)
				ak, aS, aw = anchor
				n = k_sess - ak
				lo = aS - aw + n * P_MIN
				hi = aS + n * P_MAX + sum_w + w
				if B is None:
					B = pS
				nominal_ok = lo <= S <= hi
				overrun_ok = B <= S <= B + P_MAX + w
				if B <= lo:          # the generator was waiting before the deadline: on time
					if not nominal_ok:
						bad("C09.tick-time", k=k_sess, fn=fn, S=S, lo=lo, hi=hi, since_anchor=n,
							drift=S - (aS + n * P_NOM))
					sum_w += w
					if w == 0 and clean_prev and n >= 1:
						p_seen.add(S - pS)
					clean_prev = (w == 0)
				elif B > hi:         # busy past the deadline: overrun, resynchronise
					probe("overrun-resync")
					if not overrun_ok:
						bad("C09.overrun-resync", k=k_sess, fn=fn, S=S, busy_until=B, late=w)
					anchor = (k_sess, S, S - B if S - B <= w else w)
					sum_w = 0
					clean_prev = False
				else:                # within the injected-lateness fuzz: either reading is fine
					probe("boundary-ambiguous")
					if nominal_ok:
						sum_w += w
					elif overrun_ok:
						anchor = (k_sess, S, S - B if S - B <= w else w)
						sum_w = 0
					else:
						bad("C09.tick-time", k=k_sess, fn=fn, S=S, lo=lo, hi=hi, busy_until=B)
					clean_prev = False
				if B == lo:
					probe("handler-ends-exactly-at-deadline")
			prev = (S, w)
			k_sess += 1
			pending = None
			probe("tick")
	close_segment()
	if len(p_seen) > 1:
		bad("C09.period-not-constant", seen=sorted(p_seen)[:5])
	for p in p_seen:
		if not (P_NOM - 2 <= p <= P_NOM + 2):
			bad("C09.period-value", period_ns=p)
	return viols, p_seen


ENGINE = ClckEngine()
