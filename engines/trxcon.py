# Engine `trxcon` (property C14, clause (e); DESIGN.md section 5 "C14"): trxcon's transceiver
# interface -- the unmodified src/host/trxcon/src/trx_if.c -- runs in a child process built
# with -fsanitize=address,undefined (csrc/trxcon/driver.c + shim.c, sim/trxcon_proc.py).  The
# engine is the transceiver on the far side of both UDP sockets, the clock (it fires the 2 s
# retransmission timer) and the L1 above (phyif commands, burst requests).
#
# What the code under test does with its input (read off trx_if.c, *given* behaviour, not oracle):
#   TRXC  a datagram not starting with "RSP " is logged and ignored; otherwise the timer is
#         stopped; with an empty queue the response is dropped; the token behind "RSP " is
#         compared with the head of the queue over the token's length only (so a prefix, even
#         an empty one, matches); mismatch -> the FSM is terminated; status != 0 on a critical
#         command (all but SETTA) -> the FSM is terminated; otherwise the head is popped and
#         the next queued command transmitted.  Four expiries of the timer on one command
#         -> state OFFLINE and termination.
#   TRXD  accepted in every FSM state; header 8 octets, version nibble 0, body of 148 or 444
#         soft bits, optionally followed by 2 padding octets, FN below the hyperframe.
#   A termination releases the instance; the parent FSM is told (parent_event).
#
# Oracle (owners: C14)
#   C14.trxcon-crash     the child died (sanitizer report, signal), hung, or leaked memory;
#                        signature C14.trxcon-crash/<kind>/<innermost trx_if.c function>[/<trigger>]
#   C14.trxcon-fsm       a state change / event the FSM definition does not allow
#   C14.trxcon-fd        a closed descriptor was used, or the callback did not read its datagram
#   C14.trxcon-liveness  after hostile traffic, a conforming response to the command that is
#                        pending did not pop it / the next command was not transmitted with
#                        its timer armed (documented reactions -- termination on a critical
#                        failure -- are not violations)
#   C14.trxcon-burst     a valid TRXDv0 burst after hostile traffic did not come up as
#                        BURST.ind with its fn/tn/rssi/toa/soft bits
#
# Known triggers (genuine defects of trx_if.c, see `TRIGGERS`): most runs steer around them
# (config.avoid), a seeded ~6 % each do not, VERIF_TRXCON_NOAVOID=<name,...> forces that; the
# crash of a run on a datagram that is such a trigger carries the trigger in its signature.

import json
import os
import random

from sim.runner import Result, rng_for, digest_of
from sim import trxcon_proc
from sim.trxcon_proc import TrxconProc, Crashed, hexs, unhex

HYPER = 2715648
TRXC_READ = 1023         # read(fd, buf, sizeof(buf) - 1) in trx_ctrl_read_cb
TRXD_READ = 512

# ---------------------------------------------------------------- ARFCN <-> frequency --
# 3GPP TS 45.005 section 2 (first, last, uplink of first in 100 kHz, duplex distance, flag)
BANDS = [
	(512, 810, 18502, 800, 0x8000),
	(0, 124, 8900, 450, 0),
	(955, 1023, 8762, 450, 0),
	(128, 251, 8242, 450, 0),
	(512, 885, 17102, 950, 0),
	(259, 293, 4506, 100, 0),
	(306, 340, 4790, 100, 0),
	(350, 425, 8060, 300, 0),
	(438, 511, 7472, 300, 0),
]


def arfcn2freq10(arfcn, uplink):
	flag = arfcn & 0x8000
	n = arfcn & 0x0fff
	for lo, hi, ul, dup, fl in BANDS:
		if fl == flag and lo <= n <= hi:
			f = ul + 2 * (n - lo)
			return f if uplink else f + dup
	return None


def dl_khz2arfcn(khz):
	f10 = (khz // 100) & 0xffff
	for lo, hi, ul, dup, fl in BANDS:
		a, b = ul + dup, ul + dup + 2 * (hi - lo)
		if a <= f10 <= b:
			return (lo + ((f10 - a) >> 1)) | fl
	return None


VALID_ARFCNS = [0, 1, 42, 124, 955, 1023, 128, 251, 512, 700, 885, 259, 293, 306, 340, 438, 511,
	0x8000 | 512, 0x8000 | 810]
INVALID_ARFCNS = [125, 127, 252, 258, 300, 345, 426, 430, 886, 954, 1024, 4095, 0x8000 | 100, 0x8000 | 811]

CRITICAL = {"POWEROFF", "POWERON", "ECHO", "SETSLOT", "RXTUNE", "TXTUNE", "MEASURE", "SETFH"}
KNOWN_VERBS = ["POWEROFF", "POWERON", "ECHO", "SETSLOT", "RXTUNE", "TXTUNE", "MEASURE", "SETFH", "SETTA"]

# ---------------------------------------------------------------- known triggers -------
# name -> what it is.  The predicates live in Run (they need the head of the queue).
TRIGGERS = {
	"rsp-no-status": "TRXC response whose verb token is not followed by a space (\"RSP POWEROFF\", "
		"\"RSP \") and is a prefix of the pending command: strchr() returns NULL, sscanf(p + 1) reads address 1",
	"measure-short": "TRXC response shorter than 14 octets accepted for a pending MEASURE (\"RSP MEASURE 0\" "
		"without NUL, \"RSP M 0\"): the result is scanned at buf + 14, behind the datagram (stale stack, "
		"no terminator guaranteed)",
}
AVOID_ALL = sorted(TRIGGERS)

RSP_MUT_KINDS = ["no-status", "rsp-alone", "no-args", "wrong-verb", "unknown-verb", "prefix-verb", "empty-verb",
	"no-nul", "nonnum-status", "huge", "negative", "overlong", "empty", "random", "non-utf8", "bitflip",
	"truncate", "dup", "measure-short", "measure-odd", "setformat", "embedded-nul", "not-rsp", "trxd-on-ctrl", "blank"]
TRXD_MUT_KINDS = ["trunc", "version", "fn-huge", "psk", "long", "random", "len-off", "bitflip", "rsp-on-data", "empty"]
ERRNOS = [4, 9, 11, 104, 111]


# ---------------------------------------------------------------- datagram builders ----
def trxd_pdu(op):
	"""Valid TRXDv0 Rx PDU of a trxd_ok op."""
	r = random.Random(op.get("s", 0))
	n = op.get("n", 148)
	style = op.get("bits", "rand")
	if style == "rand":
		body = bytes(r.randrange(256) for _ in range(n))
	elif style == "edge":
		body = bytes(r.choice([0, 1, 127, 128, 254, 255]) for _ in range(n))
	else:
		body = bytes([int(style) & 0xff]) * n
	hdr = bytes([op.get("tn", 0) & 7]) + (op.get("fn", 0) & 0xffffffff).to_bytes(4, "big") \
		+ bytes([op.get("rssi", 60) & 0xff]) + (op.get("toa", 0) & 0xffff).to_bytes(2, "big")
	return hdr + body + (b"\x00\x00" if op.get("pad") else b"")


def expected_burst_ind(pdu, nbits):
	"""[fn, tn, rssi, toa256, hex of soft bits] as the comment block of trx_if.c defines them:
	tn, FN big endian, RSSI in -dBm, timing offset 2's complement big endian, soft symbols
	0 -> definite '0' (+127) ... 255 -> definite '1' (-127)."""
	tn = pdu[0] & 7
	fn = int.from_bytes(pdu[1:5], "big")
	rssi = pdu[5] if pdu[5] < 128 else pdu[5] - 256     # -(int8_t) b, stored in an int8_t
	rssi = -rssi
	if rssi == 128:
		rssi = -128
	toa = int.from_bytes(pdu[6:8], "big", signed=True)
	sb = bytes(((-127 if b == 255 else 127 - b) & 0xff) for b in pdu[8:8 + nbits])
	return [str(fn), str(tn), str(rssi), str(toa), hexs(sb)]


def trxd_mut(op):
	"""Hostile TRXD datagram of a trxd_mut op (pure function of the op)."""
	r = random.Random(op.get("s", 0))
	kind = op["kind"]
	base = trxd_pdu({"s": r.getrandbits(32), "tn": r.randrange(8), "fn": r.randrange(HYPER),
		"rssi": r.randrange(256), "toa": r.randrange(65536), "pad": r.random() < 0.5})
	if kind == "trunc":
		k = op.get("k")
		if k is None:
			k = r.choice([0, 1, 4, 5, 7, 8, 9, 10, 155, 157, 159])
		return base[:k]
	if kind == "version":
		return bytes([(r.randrange(1, 16) << 4) | (base[0] & 0x0f)]) + base[1:]
	if kind == "fn-huge":
		fn = op.get("fn")
		if fn is None:
			fn = r.choice([HYPER, HYPER + 1, 0xffffffff, 0x80000000, r.randrange(HYPER, 1 << 32)])
		return base[:1] + fn.to_bytes(4, "big") + base[5:]
	if kind == "psk":
		n = op.get("n", 444)
		return base[:8] + bytes(r.randrange(256) for _ in range(n))
	if kind == "long":
		n = op.get("n", 512)
		return base[:8] + bytes(r.randrange(256) for _ in range(max(0, n - 8)))
	if kind == "random":
		n = op.get("n", 16)
		return bytes(r.randrange(256) for _ in range(n))
	if kind == "len-off":
		n = op.get("n", 147)
		return base[:8] + bytes(r.randrange(256) for _ in range(n))
	if kind == "bitflip":
		b = bytearray(base)
		for _ in range(r.choice([1, 1, 2, 3])):
			i = r.randrange(min(len(b), op.get("span", 8)))
			b[i] ^= 1 << r.randrange(8)
		return bytes(b)
	if kind == "rsp-on-data":
		return b"RSP POWERON 0\x00"
	if kind == "empty":
		return b""
	return base


def valid_response(head, status=0, dbm=-60):
	"""What a conforming transceiver answers to the command `head` (bytes, without NUL):
	"RSP <verb> <status>[ <original arguments>][ <result>]" + NUL (comment blocks of trx_if.c,
	ctrl_if.py / ctrl_if_trx.py of the trx_toolkit)."""
	parts = head.split(b" ", 2)
	verb = parts[1] if len(parts) > 1 else b""
	args = parts[2] if len(parts) > 2 else b""
	out = b"RSP " + verb + b" " + str(status).encode()
	if args:
		out += b" " + args
	if verb == b"MEASURE":
		out += b" " + str(dbm).encode()
	return out + b"\x00"


def rsp_mut(op, head, last_answered):
	"""Hostile TRXC datagram of a rsp_mut op, derived from the command that is pending (`head`,
	may be None) the way a broken or malicious transceiver would."""
	r = random.Random(op.get("s", 0))
	kind = op["kind"]
	base_cmd = head
	if base_cmd is None:
		base_cmd = last_answered or r.choice([b"CMD POWEROFF", b"CMD ECHO", b"CMD MEASURE 935200", b"CMD SETSLOT 1 4"])
	parts = base_cmd.split(b" ", 2)
	verb = parts[1] if len(parts) > 1 else b"ECHO"
	args = parts[2] if len(parts) > 2 else b""
	good = valid_response(base_cmd, 0, op.get("dbm", -60))
	sp_args = (b" " + args) if args else b""
	if kind == "no-status":
		v = op.get("v", 0)
		if v == 0:
			return b"RSP " + verb + b"\x00"
		if v == 1:
			return b"RSP " + verb
		return b"RSP " + verb[:max(1, len(verb) // 2)] + b"\x00"
	if kind == "rsp-alone":
		return [b"RSP\x00", b"RSP", b"RSP \x00", b"RSP ", b"RSP\x00 ECHO 0\x00"][op.get("v", 0) % 5]
	if kind == "no-args":
		return b"RSP " + verb + b" 0\x00"
	if kind == "wrong-verb":
		others = [v.encode() for v in KNOWN_VERBS if v.encode() != verb]
		return b"RSP " + r.choice(others) + b" 0" + sp_args + b"\x00"
	if kind == "unknown-verb":
		return b"RSP " + r.choice([b"FOOBAR", b"SETFORMAT", b"NOMTXPOWER", b"X", b"POWERONN", verb + b"X", verb.lower()]) + b" 0" + sp_args + b"\x00"
	if kind == "prefix-verb":
		k = op.get("k")
		if k is None:
			k = r.randrange(1, max(2, len(verb)))
		return b"RSP " + verb[:k] + b" 0" + sp_args + b"\x00"
	if kind == "empty-verb":
		return [b"RSP  0\x00", b"RSP  0" + sp_args + b"\x00", b"RSP  1\x00", b"RSP   \x00"][op.get("v", 0) % 4]
	if kind == "no-nul":
		return good[:-1]
	if kind == "nonnum-status":
		st = [b"abc", b"", b"+", b"-", b"0x10", b"\xff\xfe", b"O", b"NaN", b" ", b"1e3"][op.get("v", 0) % 10]
		return b"RSP " + verb + b" " + st + sp_args + b"\x00"
	if kind == "huge":
		big = r.choice([b"2147483647", b"2147483648", b"4294967296", b"99999999999999999999", b"9" * 400])
		v = op.get("v", 0) % 3
		if v == 0:
			return b"RSP " + verb + b" " + big + sp_args + b"\x00"
		if v == 1:
			return b"RSP " + verb + b" 0 " + big + b" " + big + b"\x00"
		return b"RSP " + verb + b" 0" + sp_args + b" " + big + b"\x00"
	if kind == "negative":
		neg = r.choice([b"-1", b"-0", b"-2147483648", b"-2147483649", b"-99999999999999999999"])
		v = op.get("v", 0) % 2
		if v == 0:
			return b"RSP " + verb + b" " + neg + sp_args + b"\x00"
		return b"RSP " + verb + b" 0 " + neg + b" " + neg + b"\x00"
	if kind == "overlong":
		n = op.get("n", 1024)
		fill = op.get("fill", "digit")
		body = good[:-1]
		padn = max(0, n - len(body))
		if fill == "digit":
			pad = b" " + b"7" * max(0, padn - 1)
		elif fill == "space":
			pad = b" " * padn
		elif fill == "verb":
			body = b"RSP "
			pad = b"A" * max(0, n - 4)
		else:
			pad = bytes(r.randrange(1, 256) for _ in range(padn))
		out = (body + pad)[:n]
		return out + (b"\x00" if op.get("nul") else b"")
	if kind == "empty":
		return b""
	if kind == "blank":
		# nothing but terminators and white space (whatever strips trailing octets must stop at the start)
		return [b"\x00", b"\n", b" ", b"\x00\x00\x00\x00", b"\r\n", b"\t \n\x00", b" " * 40, b"\x00" * 1023, b"\n" * 1024][op.get("v", 0) % 9]
	if kind == "random":
		n = op.get("n", 12)
		x = bytes(r.randrange(256) for _ in range(n))
		return (b"RSP " + x) if op.get("v", 0) % 2 else x
	if kind == "non-utf8":
		b = bytearray(good)
		for _ in range(r.choice([1, 2, 5])):
			b[r.randrange(4 if op.get("v", 0) % 2 else 0, len(b))] = r.randrange(0x80, 0x100)
		return bytes(b)
	if kind == "bitflip":
		b = bytearray(good)
		for _ in range(r.choice([1, 1, 2, 3])):
			b[r.randrange(len(b))] ^= 1 << r.randrange(8)
		return bytes(b)
	if kind == "truncate":
		k = op.get("k")
		if k is None:
			k = r.randrange(0, len(good))
		return good[:k]
	if kind == "dup":
		return valid_response(last_answered or base_cmd, 0, op.get("dbm", -60))
	if kind == "measure-short":
		return [b"RSP MEASURE 0", b"RSP MEASURE 0\x00", b"RSP M 0 1", b"RSP MEASURE 0 ", b"RSP ME 0\x00",
			b"RSP MEASURE 00\x00", b"RSP MEASUR 0 9", b"RSP MEASURE  0"][op.get("v", 0) % 8]
	if kind == "measure-odd":
		khz = args if verb == b"MEASURE" and args else b"935200"
		return [b"RSP MEASURE 0 " + khz + b"\x00", b"RSP MEASURE 0 abc def\x00", b"RSP MEASURE 0 4294967295 -1\x00",
			b"RSP MEASURE 0 99999999999 99999999999\x00", b"RSP MEASURE 0 " + khz + b" -\x00",
			b"RSP MEASURE 0 0 0\x00", b"RSP MEASURE 0 -935200 -60\x00", b"RSP MEASURE 0 " + khz + b" -60 junk\x00",
			b"RSP MEASURE 0  " + khz + b"  -60\x00", b"RSP MEASURE 0 6553500 -60\x00"][op.get("v", 0) % 10]
	if kind == "setformat":
		return [b"RSP SETFORMAT 0 1\x00", b"RSP SETFORMAT 1 2\x00", b"RSP SETFORMAT -1 7\x00", b"RSP SETFORMAT 0\x00"][op.get("v", 0) % 4]
	if kind == "embedded-nul":
		k = op.get("k")
		if k is None:
			k = r.randrange(0, len(good))
		return good[:k] + b"\x00" + good[k:]
	if kind == "not-rsp":
		return [base_cmd + b"\x00", b"IND CLOCK 1234\x00", b"rsp " + verb + b" 0\x00", b"RSP\t" + verb + b" 0\x00",
			b" RSP " + verb + b" 0\x00", b"\x00RSP " + verb + b" 0\x00"][op.get("v", 0) % 6]
	if kind == "trxd-on-ctrl":
		return trxd_pdu({"s": op.get("s", 0), "tn": 1, "fn": 1000, "pad": True})
	return good


def cstr(data, cap):
	"""The C string the receiver sees: truncated to its buffer, up to the first NUL."""
	d = data[:cap]
	i = d.find(b"\x00")
	return d if i < 0 else d[:i]


# ---------------------------------------------------------------- one run --------------
class Stop(Exception):
	pass


class Run:
	def __init__(self, engine, plan, proc):
		self.eng = engine
		self.plan = plan
		self.cfg = plan.get("config", {})
		self.avoid = set(self.cfg.get("avoid", AVOID_ALL))
		self.proc = proc
		self.log = []            # [request, events] of every protocol line
		self.viols = []
		self.faults = {}
		self.probes = {}
		self.shape = []
		self.taint = set()
		self.alive = False
		self.answered = 0
		self.hostile = 0
		self.hostile_since_ok = False
		self.last_answered = None
		self.timer_val = 2_000_000_000
		self.sim_ns = 0
		self.steps = 0
		self.cur_op = None
		self.cur_trigger = None
		self.cur_datagram = None

	# ---- bookkeeping
	def fault(self, name):
		self.faults[name] = self.faults.get(name, 0) + 1

	def probe(self, name):
		self.probes[name] = self.probes.get(name, 0) + 1

	def bad(self, clause, signature=None, **detail):
		detail["op"] = self.cur_op
		v = {"clause": clause, "detail": detail, "owners": ["C14"]}
		if signature:
			v["signature"] = signature
		self.viols.append(v)
		raise Stop()

	def req(self, line):
		self.steps += 1
		try:
			evs = self.proc.request(line)
		except Crashed as c:
			self.log.append([line, [list(e) for e in c.events], "died"])
			self.crashed(c)
		self.log.append([line, [list(e) for e in evs]])
		if not evs.ok:
			# the engine only sends what the driver accepts: anything else is a harness defect
			raise RuntimeError("trxcon driver refused %r: %s" % (line[:100], evs.err))
		self.scan(evs)
		return evs

	def crashed(self, c):
		kind, frame = c.kind(), c.frame()
		sig = "C14.trxcon-crash/%s/%s" % (kind, frame or "-")
		if self.cur_trigger:
			sig += "/" + self.cur_trigger
		report = [ln for ln in c.stderr.splitlines() if ln.strip()][:14]
		self.alive = False
		self.bad("C14.trxcon-crash", signature=sig, how=c.how(), kind=kind, frame=frame,
			trigger=self.cur_trigger, datagram=self.cur_datagram, report=report,
			last_events=[" ".join(e) for e in c.events[-4:]])

	def scan(self, evs):
		"""Events that are violations wherever they show up, and life-cycle tracking."""
		for e in evs:
			n = e[0]
			if n == "fsm_violation":
				self.bad("C14.trxcon-fsm", text=e[1] if len(e) > 1 else "")
			elif n in ("tx_badfd", "read_badfd", "close_badfd", "bad_priv", "fd_unregister_unknown",
					"close_registered", "rx_unread"):
				self.bad("C14.trxcon-fd", signature="C14.trxcon-fd/" + n, event=" ".join(e))
			elif n == "inst_freed":
				self.alive = False
			elif n == "timer_sched":
				self.timer_val = int(e[1]) * 1_000_000_000 + int(e[2]) * 1000
			elif n == "rx_truncated":
				self.probe("recv-truncation")

	def state(self):
		evs = self.req("state")
		st = {}
		for e in evs:
			st[e[0]] = e[1] if len(e) > 1 else ""
		return {
			"fsm": st.get("fsm_state", "-"), "q": int(st.get("ctrl_queue", "0")),
			"head": unhex(st["ctrl_head"]) if st.get("ctrl_head", "-") != "-" else None,
			"timer": st.get("timer_pending") == "1", "alive": st.get("alive") == "1",
			"live": int(st.get("talloc_live", "0")), "powered": st.get("powered_up") == "1",
		}

	# ---- triggers of known defects (exact mirrors of the C control flow)
	def trigger_of(self, data, st):
		if st["q"] == 0 or st["head"] is None:
			return None
		s = cstr(data, TRXC_READ)
		if not s.startswith(b"RSP ") or len(data) == 0:
			return None
		rest = s[4:]
		head_tail = st["head"][4:]
		if b" " not in rest:
			# token compared over its own length; strncmp also stops at the head's terminator
			if head_tail[:len(rest)] == rest and len(rest) <= len(head_tail):
				return "rsp-no-status"
			return None
		# over-approximation (sound for steering): any response shorter than 14 octets while a
		# MEASURE is pending
		if head_tail.startswith(b"MEASURE") and min(len(data), TRXC_READ) <= 13:
			return "measure-short"
		return None

	# ---- life cycle
	def open(self):
		c = self.cfg
		evs = self.req("open %s %s %d %d %d" % (c.get("lhost", "127.0.0.1"), c.get("rhost", "127.0.0.1"),
			c.get("base_port", 6700), c.get("fn_advance", 3), c.get("instance", 0)))
		self.alive = True
		lv = c.get("loglevel")
		if lv:
			self.req("loglevel %d" % lv)

	def finish(self):
		self.cur_op = {"op": "(end of run)"}
		self.cur_trigger = None
		self.cur_datagram = None
		if self.alive:
			st = self.state()
			evs = self.req("close")
			if st["powered"] and any(e[0] == "tx" and e[1] == "ctrl" for e in evs):
				self.probe("poweroff-on-close")
		st = self.state()
		if st["alive"] or st["live"] != 0 or st["timer"]:
			self.bad("C14.trxcon-crash", signature="C14.trxcon-crash/leak/-", kind="leak", after_close=st)

	# ---- operations
	def run_ops(self):
		self.cur_datagram = None
		try:
			self.cur_op = {"op": "(open)"}
			self.open()
			for op in self.plan.get("ops", []):
				if not isinstance(op, dict):
					continue
				self.cur_op = op
				self.cur_trigger = None
				self.cur_datagram = None
				k = op.get("op")
				if k == "open":
					if not self.alive:
						self.open()
						self.probe("reopen")
						self.shape.append("open")
					continue
				if not self.alive and k != "timer":
					continue       # after a termination only `open` makes sense (and time goes on)
				fn = getattr(self, "op_" + str(k), None)
				if fn is not None:
					fn(op)
			self.finish()
		except Stop:
			pass

	def op_close(self, op):
		st = self.state()
		evs = self.req("close")
		if st["powered"] and any(e[0] == "tx" and e[1] == "ctrl" for e in evs):
			self.probe("poweroff-on-close")
		self.shape.append("close")

	def op_cmd(self, op):
		t = op.get("t", "POWERON")
		if t in ("RESET", "POWERON", "POWEROFF"):
			line = "cmd %s" % t
		elif t in ("MEASURE", "SETFREQ_H0"):
			line = "cmd %s %d" % (t, op.get("arfcn", 1) & 0xffff)
		elif t == "SETFREQ_H1":
			ma = [a & 0xffff for a in op.get("ma", [])]
			line = "cmd SETFREQ_H1 %d %d %s" % (op.get("hsn", 0) & 0xff, op.get("maio", 0) & 0xff,
				",".join(str(a) for a in ma) if ma else "-")
		elif t == "SETSLOT":
			line = "cmd SETSLOT %d %d" % (op.get("tn", 0) & 0xff, op.get("pchan", 1) % 12)
		elif t == "SETTA":
			line = "cmd SETTA %d" % max(-128, min(127, op.get("ta", 0)))
		else:
			line = "cmd TYPE %d" % (op.get("n", 99) & 0xff)
		evs = self.req(line)
		rc = evs.first("cmd_rc")
		self.shape.append("cmd:%s:%s" % (t, rc[1] if rc else "?"))
		if rc and rc[1] != "0":
			self.probe("cmd-refused")

	def op_burst_req(self, op):
		r = random.Random(op.get("s", 0))
		n = max(0, min(506, op.get("n", 148)))
		bits = bytes(r.randrange(2) for _ in range(n))
		evs = self.req("burst_req %d %d %d %s" % (op.get("fn", 0) & 0xffffffff, op.get("tn", 0) & 0xff,
			op.get("pwr", 0) & 0xff, hexs(bits)))
		tx = [e for e in evs if e[0] == "tx" and e[1] == "data"]
		self.shape.append("breq:%d" % len(tx))
		if n != 148:
			self.probe("burst-req-odd-length")

	def op_timer(self, op):
		st = self.state()
		evs = self.req("timer")
		if evs.first("no_timer"):
			self.shape.append("timer:none")
			return
		self.sim_ns += self.timer_val
		if evs.first("fsm_term"):
			self.probe("retry-exhausted-term")
			self.shape.append("timer:term")
		elif any(e[0] == "tx" and e[1] == "ctrl" for e in evs):
			self.probe("retransmission")
			self.shape.append("timer:retx")
			tx = [e for e in evs if e[0] == "tx" and e[1] == "ctrl"][0]
			# "Attempt to send a command again": the head, unchanged
			if st["head"] is not None and unhex(tx[2]) != st["head"] + b"\x00":
				self.bad("C14.trxcon-liveness", what="retransmission differs from the pending command",
					sent=tx[2], pending=hexs(st["head"]))
		else:
			self.shape.append("timer:idle")

	def op_rxerr(self, op):
		sock = "data" if op.get("sock") == "data" else "ctrl"
		self.fault("rxerr")
		self.hostile += 1
		self.hostile_since_ok = True
		self.req("rxerr %s %d" % (sock, op.get("errno", 111)))
		self.shape.append("rxerr:" + sock)

	def deliver_ctrl(self, data, hostile, label):
		"""Deliver one datagram to the control socket; returns (state before, events, state
		after) or None when the run steers around a known trigger."""
		st = self.state()
		trig = self.trigger_of(data, st) if hostile else None
		if trig:
			if trig in self.avoid:
				self.probe("avoided:" + trig)
				self.shape.append("avoid")
				return None
			self.taint.add(trig)
			self.cur_trigger = trig
			self.probe("trigger:" + trig)
		self.cur_datagram = data[:80].hex() + ("..(%d)" % len(data) if len(data) > 80 else "")
		if hostile:
			self.fault(label)
			self.hostile += 1
			self.hostile_since_ok = True
		evs = self.req("rx ctrl %s" % hexs(data))
		st2 = self.state() if self.alive else {"q": 0, "head": None, "timer": False, "alive": False}
		return st, evs, st2

	def op_rsp_ok(self, op):
		st0 = self.state()
		if st0["q"] == 0 or st0["head"] is None:
			self.shape.append("rsp_ok:idle")
			return
		head = st0["head"]
		verb = head.split(b" ")[1] if b" " in head else b""
		status = op.get("status", 0)
		dbm = op.get("dbm", -60)
		data = valid_response(head, status, dbm)
		if op.get("nonul"):
			data = data[:-1]
		got = self.deliver_ctrl(data, False, "rsp_ok")
		st, evs, st2 = got
		term = evs.first("fsm_term")
		if status != 0:
			# "The <status> is 0 for success and a non-zero error code for failure": what trxcon
			# makes of a failure is its own business (it gives up on critical commands)
			if term:
				self.probe("critical-nak-term")
			elif st2["q"] == st["q"] - 1:
				self.probe("noncritical-nak-popped")
			self.shape.append("rsp_nak:%s" % ("term" if term else "pop"))
			return
		after_hostile = self.hostile_since_ok
		self.hostile_since_ok = False
		ctx = {"response": data[:80].hex(), "pending": head[:80].decode("latin-1"), "after_hostile": after_hostile,
			"queue_before": st["q"], "queue_after": st2["q"]}
		if term or not self.alive:
			self.bad("C14.trxcon-liveness", what="conforming response terminated the interface", **ctx)
		if st2["q"] != st["q"] - 1:
			self.bad("C14.trxcon-liveness", what="conforming response did not pop the pending command", **ctx)
		txs = [e for e in evs if e[0] == "tx" and e[1] == "ctrl"]
		if st2["q"] > 0:
			if len(txs) != 1 or unhex(txs[0][2]) != (st2["head"] or b"") + b"\x00":
				self.bad("C14.trxcon-liveness", what="next queued command not transmitted after the pop",
					sent=[t[2][:80] for t in txs], **ctx)
			if not st2["timer"]:
				self.bad("C14.trxcon-liveness", what="command pending without retransmission timer", **ctx)
			if st["q"] >= 3:
				self.probe("queue-depth>=3")
		else:
			if txs:
				self.bad("C14.trxcon-liveness", what="transmission although the queue is empty", sent=[t[2][:80] for t in txs], **ctx)
			if st2["timer"]:
				self.bad("C14.trxcon-liveness", what="timer armed although the queue is empty", **ctx)
		if verb == b"MEASURE":
			parts = head.split(b" ")
			want = None
			try:
				want = dl_khz2arfcn(int(parts[2]))
			except (IndexError, ValueError):
				pass
			rsp = evs.named("rsp")
			if want is not None:
				if len(rsp) != 1 or rsp[0][1:] != ["MEASURE", str(want), str(dbm)]:
					self.bad("C14.trxcon-liveness", what="MEASURE result not handed up as commanded ARFCN + reported dBm",
						got=[" ".join(e) for e in rsp], want="rsp MEASURE %d %d" % (want, dbm), **ctx)
				self.probe("measure-parsed")
		self.answered += 1
		self.last_answered = head
		if after_hostile:
			self.probe("answered-after-hostile")
		self.shape.append("rsp_ok:%s" % verb.decode("latin-1")[:8])

	def op_rsp_mut(self, op):
		st0 = self.state()
		data = rsp_mut(op, st0["head"] if st0["q"] else None, self.last_answered)
		self.hostile_ctrl(data, "rsp_mut:" + str(op.get("kind")))

	def hostile_ctrl(self, data, label):
		got = self.deliver_ctrl(data, True, label)
		if got is None:
			return
		st, evs, st2 = got
		out = "ign"
		if evs.first("fsm_term"):
			out = "term"
			self.probe("hostile-term")
		elif st["q"] == 0 and cstr(data, TRXC_READ).startswith(b"RSP "):
			out = "noq"
			self.probe("rsp-queue-empty")
		elif st2["q"] < st["q"]:
			out = "pop"
			self.probe("hostile-popped-head")
			self.last_answered = st["head"]
		if evs.first("rsp"):
			self.probe("hostile-measure-rsp")
		self.shape.append("%s>%s" % (label.split(":")[-1][:6], out))

	def op_raw(self, op):
		try:
			data = bytes.fromhex(op.get("x", ""))
		except ValueError:
			return
		if op.get("sock") == "data":
			self.hostile_data(data, "raw:data")
		else:
			self.hostile_ctrl(data, "raw:ctrl")

	def hostile_data(self, data, label):
		self.cur_datagram = data[:80].hex() + ("..(%d)" % len(data) if len(data) > 80 else "")
		self.fault(label)
		self.hostile += 1
		self.hostile_since_ok = True
		evs = self.req("rx data %s" % hexs(data))
		bi = evs.named("burst_ind")
		if bi:
			self.probe("hostile-burst-accepted")
			if len(unhex(bi[0][5])) == 444:
				self.probe("psk-burst-accepted")
		self.shape.append("%s>%d" % (label.split(":")[-1][:6], len(bi)))

	def op_trxd_mut(self, op):
		if op.get("kind") == "ctrl-side":
			return
		self.hostile_data(trxd_mut(op), "trxd_mut:" + str(op.get("kind")))

	def op_trxd_ok(self, op):
		pdu = trxd_pdu(op)
		fn = int.from_bytes(pdu[1:5], "big")
		if fn >= HYPER or len(pdu) not in (156, 158):
			return                       # not a valid burst: generator never does that, replays might
		after_hostile = self.hostile > 0
		self.cur_datagram = pdu[:16].hex() + "..(%d)" % len(pdu)
		evs = self.req("rx data %s" % hexs(pdu))
		want = expected_burst_ind(pdu, 148)
		bi = evs.named("burst_ind")
		if len(bi) != 1 or bi[0][1:] != want:
			self.bad("C14.trxcon-burst", what="valid TRXDv0 burst not indicated with its fn/tn/rssi/toa/soft bits",
				after_hostile=after_hostile, got=[" ".join(e)[:120] for e in bi], want=" ".join(want)[:120])
		self.probe("burst-ind")
		if after_hostile:
			self.probe("burst-ind-after-hostile")
		self.shape.append("trxd_ok")


# ---------------------------------------------------------------- engine ---------------
class TrxconEngine:
	name = "trxcon"
	REUSE_LIMIT = 400

	def __init__(self):
		self.paths = None
		self._procs = {}
		self._pid = None
		self._sym = trxcon_proc.Symbolizer()     # memo of resolved report frames, per worker

	def setup(self):
		# every check invocation rebuilds from the repository's working tree
		self.paths = trxcon_proc.build_all()
		# smoke test: the build answers and starts clean
		p = TrxconProc(self.paths["zero"])
		try:
			evs = p.request("state")
			if not evs.ok or evs.first("alive") != ["alive", "0"]:
				raise RuntimeError("trxcon driver does not answer as expected: %r" % (list(evs),))
		finally:
			rc, err = p.close()
		if rc != 0:
			raise RuntimeError("trxcon driver did not exit cleanly (%s):\n%s" % (rc, err[-2000:]))

	# ------------------------------------------------------------------ processes -----
	def _drop_all(self):
		for p in self._procs.values():
			try:
				p[0].kill()
			except Exception:
				pass
		self._procs = {}

	def _acquire(self, variant, fresh):
		"""A driver process in pristine state: a new one, or (cheaper by an order of magnitude)
		the worker's previous one after a successful `reset` (which refuses if anything is left
		from the previous run)."""
		if self._pid != os.getpid():
			self._procs = {}           # handles inherited over fork() belong to the parent
			self._pid = os.getpid()
		if not fresh and os.environ.get("VERIF_TRXCON_FRESH") != "1":
			ent = self._procs.pop(variant, None)
			if ent is not None:
				p, uses = ent
				if uses < self.REUSE_LIMIT and p.alive():
					try:
						if p.request("reset").ok:
							return p, uses + 1
					except Crashed:
						pass
				p.kill()
		return TrxconProc(self.paths[variant], symbolizer=self._sym), 0

	def _release(self, variant, p, uses, clean):
		if clean and p.alive() and os.environ.get("VERIF_TRXCON_FRESH") != "1":
			old = self._procs.pop(variant, None)
			if old is not None:
				old[0].kill()
			self._procs[variant] = (p, uses)
			return None
		if p.alive():
			return p.close()
		return None

	# ------------------------------------------------------------------ generate ------
	def generate(self, seed, prop, tier):
		rng = rng_for(seed, "plan")
		thorough = tier == "thorough"
		noavoid = set(x for x in os.environ.get("VERIF_TRXCON_NOAVOID", "").split(",") if x)
		# known findings: most runs steer around their triggers so that the rest of the space is
		# explored; a seeded ~6 % each keep hitting them (DESIGN.md 3.3)
		r_avoid = rng.random()
		if r_avoid < 0.06:
			noavoid.add("rsp-no-status")
		elif r_avoid < 0.12:
			noavoid.add("measure-short")
		# both findings have been repaired in the repository (known_findings.json: fixed), so no
		# run steers around their triggers any more; the seeded 6 % still plant the shortest
		# trigger sequence so that a regression is met quickly
		avoid = []
		max_ops = rng.choice([12, 25, 40, 60] if not thorough else [20, 60, 120, 200])
		profile = rng.choice(["session", "session", "chaos", "queue", "data"])
		# swarm: which hostile families are enabled in this run
		fam = {k: rng.random() < 0.55 for k in ("rsp_mut", "trxd_mut", "rxerr", "timer", "nak", "reopen")}
		if rng.random() < 0.12:
			fam = dict.fromkeys(fam, False)              # clean session
		rsp_kinds = [k for k in RSP_MUT_KINDS if rng.random() < 0.45] or [rng.choice(RSP_MUT_KINDS)]
		if "rsp-no-status" in noavoid:
			rsp_kinds += ["no-status", "rsp-alone", "truncate"] * 2
			fam["rsp_mut"] = True
		if "measure-short" in noavoid:
			rsp_kinds += ["measure-short"] * 4
			fam["rsp_mut"] = True
		trxd_kinds = [k for k in TRXD_MUT_KINDS if rng.random() < 0.5] or [rng.choice(TRXD_MUT_KINDS)]
		p_hostile = rng.choice([0.05, 0.15, 0.3, 0.6])
		p_answer = rng.choice([1.0, 0.9, 0.7, 0.4])
		ops = []

		def arfcn(valid=0.9):
			return rng.choice(VALID_ARFCNS) if rng.random() < valid else rng.choice(INVALID_ARFCNS)

		def cmd(t=None):
			t = t or rng.choice(["RESET", "POWERON", "POWEROFF", "MEASURE", "MEASURE", "SETFREQ_H0", "SETFREQ_H1",
				"SETSLOT", "SETTA", "TYPE"] if "measure-short" not in noavoid else ["MEASURE", "MEASURE", "POWERON", "SETTA"])
			op = {"op": "cmd", "t": t}
			if t in ("MEASURE", "SETFREQ_H0"):
				op["arfcn"] = arfcn()
			elif t == "SETFREQ_H1":
				n = rng.choice([0, 1, 1, 2, 3, 8, 16, 32, 62, 63, 64, 64, 65, 100])
				pool = rng.choice([[1, 2, 3, 5, 8, 13, 21, 34, 55, 89], list(range(512, 886)), list(range(0, 125)),
					VALID_ARFCNS, VALID_ARFCNS + INVALID_ARFCNS[:2]])
				op["ma"] = sorted(rng.choice(pool) for _ in range(n))
				op["hsn"] = rng.choice([0, 1, 63, 64, 255])
				op["maio"] = rng.choice([0, 1, 63, 255])
			elif t == "SETSLOT":
				op["tn"] = rng.choice([0, 1, 7, 8, 255])
				op["pchan"] = rng.randrange(12)
			elif t == "SETTA":
				op["ta"] = rng.choice([0, 1, 63, 127, -1, -128])
			elif t == "TYPE":
				op["n"] = rng.choice([8, 99, 255])
			return op

		def rsp_ok():
			op = {"op": "rsp_ok"}
			if fam["nak"] and rng.random() < 0.12:
				op["status"] = rng.choice([1, -1, 2, 255])
			if rng.random() < 0.3:
				op["dbm"] = rng.choice([-110, -77, -47, 0, 5])
			if rng.random() < 0.05:
				op["nonul"] = True
			return op

		def mut_rsp():
			k = rng.choice(rsp_kinds)
			op = {"op": "rsp_mut", "kind": k, "s": rng.getrandbits(32), "v": rng.randrange(10)}
			if k == "overlong":
				op["n"] = rng.choice([200, 1022, 1023, 1024, 1025, 2048, 4096])
				op["fill"] = rng.choice(["digit", "space", "verb", "rand"])
				op["nul"] = rng.random() < 0.5
			elif k == "random":
				op["n"] = rng.choice([1, 2, 4, 5, 16, 64, 1023, 1500])
			return op

		def mut_trxd():
			k = rng.choice(trxd_kinds)
			op = {"op": "trxd_mut", "kind": k, "s": rng.getrandbits(32)}
			if k == "trunc":
				op["k"] = rng.choice([0, 1, 5, 7, 8, 9, 155, 157, 159, rng.randrange(0, 161)])
			elif k == "psk":
				op["n"] = rng.choice([444, 446, 443, 445])
			elif k == "long":
				op["n"] = rng.choice([460, 504, 511, 512, 513, 600, 1024, 4096])
			elif k == "random":
				op["n"] = rng.choice([1, 7, 8, 9, 156, 158, 452, 454, 512, 700])
			elif k == "len-off":
				op["n"] = rng.choice([0, 1, 146, 147, 149, 151, 152, 442, 443, 445, 447])
			elif k == "bitflip":
				op["span"] = rng.choice([1, 8, 158])
			return op

		def ok_trxd():
			return {"op": "trxd_ok", "s": rng.getrandbits(32), "tn": rng.randrange(8),
				"fn": rng.choice([0, 1, HYPER - 1, HYPER - 3, rng.randrange(HYPER)]),
				"rssi": rng.choice([0, 1, 60, 110, 127, 128, 255]),
				"toa": rng.choice([0, 1, 255, 256, 0x7fff, 0x8000, 0xffff, rng.randrange(65536)]),
				"pad": rng.random() < 0.5, "bits": rng.choice(["rand", "rand", "edge", "0", "255", "127", "128"])}

		def breq():
			return {"op": "burst_req", "s": rng.getrandbits(32), "tn": rng.choice([0, 3, 7, 8, 255]),
				"fn": rng.choice([0, 51, HYPER - 1, HYPER, 0xffffffff, rng.randrange(HYPER)]),
				"pwr": rng.choice([0, 10, 255]), "n": rng.choice([148, 148, 148, 0, 1, 147, 149, 444, 506])}

		def hostile():
			fams = [f for f in ("rsp_mut", "trxd_mut", "rxerr") if fam[f]]
			if not fams:
				return None
			f = rng.choice(fams)
			if f == "rsp_mut":
				return mut_rsp()
			if f == "trxd_mut":
				return mut_trxd()
			return {"op": "rxerr", "sock": rng.choice(["ctrl", "data"]), "errno": rng.choice(ERRNOS)}

		def sprinkle():
			while rng.random() < p_hostile and len(ops) < max_ops:
				h = hostile()
				if h is None:
					break
				ops.append(h)
			if fam["timer"] and rng.random() < 0.15:
				for _ in range(rng.choice([1, 1, 2, 4, 5])):
					ops.append({"op": "timer"})

		def answer(n):
			for _ in range(n):
				sprinkle()
				if rng.random() < p_answer:
					ops.append(rsp_ok())

		ncmds = {"RESET": 2, "SETFREQ_H0": 2}
		if profile == "session":
			# what trxcon's L1 does: reset, tune, power on, configure, traffic, power off
			script = ["RESET", "MEASURE", "MEASURE", rng.choice(["SETFREQ_H0", "SETFREQ_H1"]), "POWERON",
				"SETSLOT", "SETTA", "traffic", "SETSLOT", "traffic", "POWEROFF"]
			for s in script:
				if len(ops) >= max_ops:
					break
				if s == "traffic":
					for _ in range(rng.choice([1, 3, 8])):
						sprinkle()
						ops.append(rng.choice([ok_trxd, ok_trxd, breq])())
					continue
				c = cmd(s)
				ops.append(c)
				answer(ncmds.get(s, 1))
		elif profile == "queue":
			# several commands back to back, answered (or not) afterwards
			while len(ops) < max_ops:
				k = rng.choice([2, 3, 5, 8])
				n = 0
				for _ in range(k):
					c = cmd()
					ops.append(c)
					n += ncmds.get(c["t"], 1)
				answer(n)
		elif profile == "data":
			ops.append(cmd("POWERON"))
			ops.append(rsp_ok())
			while len(ops) < max_ops:
				sprinkle()
				ops.append(rng.choice([ok_trxd, ok_trxd, breq, mut_trxd])())
		else:
			makers = [cmd, cmd, rsp_ok, rsp_ok, rsp_ok, ok_trxd, breq, lambda: {"op": "timer"}]
			while len(ops) < max_ops:
				sprinkle()
				ops.append(rng.choice(makers)())
		if fam["reopen"] and len(ops) > 4 and rng.random() < 0.3:
			i = rng.randrange(2, len(ops))
			ops[i:i] = [{"op": "close"}, {"op": "open"}]
		ops = ops[:max_ops]
		# runs that do not steer around a known trigger should actually reach it: the shortest
		# trigger sequence is planted at the start (half of them) or somewhere in the session
		plant = None
		if "rsp-no-status" in noavoid:
			plant = [cmd(rng.choice(["POWEROFF", "POWERON", "SETTA", "MEASURE"])),
				{"op": "rsp_mut", "kind": rng.choice(["no-status", "no-status", "rsp-alone"]), "s": rng.getrandbits(32), "v": rng.choice([0, 1, 2, 3])}]
		elif "measure-short" in noavoid:
			plant = [{"op": "cmd", "t": "MEASURE", "arfcn": rng.choice(VALID_ARFCNS)},
				{"op": "rsp_mut", "kind": "measure-short", "s": rng.getrandbits(32), "v": rng.choice([0, 2, 4, 6])}]
		if plant:
			i = 0 if rng.random() < 0.5 else rng.randrange(len(ops) + 1)
			ops[i:i] = plant
		return {"engine": "trxcon", "seed": seed,
			"config": {"lhost": rng.choice(["127.0.0.1", "0.0.0.0", "localhost"]), "rhost": rng.choice(["127.0.0.1", "10.0.0.2"]),
				"base_port": rng.choice([5700, 6700, 6700, 65000]), "fn_advance": rng.choice([0, 3, 20, HYPER - 1]),
				"instance": rng.choice([0, 0, 1, 3]), "autoinit": rng.choice(trxcon_proc.AUTOINIT),
				"loglevel": rng.choice([0, 0, 5]), "avoid": avoid, "profile": profile,
				"families": sorted(k for k, v in fam.items() if v)},
			"ops": ops}

	# ------------------------------------------------------------------ simplify ------
	def simplify(self, plan):
		def clone():
			return json.loads(json.dumps(plan))
		cfg = plan.get("config", {})
		for key, val in (("autoinit", "zero"), ("fn_advance", 3), ("instance", 0), ("base_port", 6700),
				("lhost", "127.0.0.1"), ("rhost", "127.0.0.1"), ("loglevel", 0)):
			if cfg.get(key) != val:
				p = clone()
				p["config"][key] = val
				yield p
		for i, op in enumerate(plan.get("ops", [])):
			if not isinstance(op, dict):
				continue
			for key, val in (("s", 0), ("v", 0), ("dbm", -60), ("status", 0), ("fn", 0), ("tn", 0), ("rssi", 60),
					("toa", 0), ("pwr", 0), ("hsn", 0), ("maio", 0), ("ta", 0), ("arfcn", 1), ("bits", "0"),
					("pad", False), ("nonul", False), ("nul", False), ("fill", "digit")):
				if key in op and op[key] != val:
					p = clone()
					p["ops"][i][key] = val
					yield p
			if op.get("op") == "cmd" and len(op.get("ma", [])) > 1:
				p = clone()
				p["ops"][i]["ma"] = op["ma"][:1]
				yield p
			if "n" in op and isinstance(op["n"], int) and op["n"] > 1:
				for m in (op["n"] // 2, op["n"] - 1):
					p = clone()
					p["ops"][i]["n"] = m
					yield p
			if op.get("op") == "trxd_mut":
				# a literal datagram says more than a recipe
				p = clone()
				p["ops"][i] = {"op": "raw", "sock": "data", "x": trxd_mut(op).hex()}
				yield p
			if op.get("op") == "raw" and len(op.get("x", "")) > 2:
				x = op["x"]
				for m in (len(x) // 4 * 2, len(x) - 2):
					p = clone()
					p["ops"][i]["x"] = x[:m]
					yield p

	# ------------------------------------------------------------------ execute -------
	def execute(self, plan, prop, choices=None):
		res, reused = self._execute(plan, fresh=False)
		if res.violations and reused:
			# a violation seen in a recycled process must reproduce in a brand-new one
			res2, _ = self._execute(plan, fresh=True)
			if [v["clause"] for v in res2.violations] != [v["clause"] for v in res.violations] or res2.digest != res.digest:
				raise RuntimeError("trxcon engine: run differs between a recycled and a fresh driver process "
					"(seed %s): %r vs %r" % (plan.get("seed"), res.violations[:1], res2.violations[:1]))
			return res2
		return res

	def _execute(self, plan, fresh):
		if self.paths is None:
			self.setup()
		variant = plan.get("config", {}).get("autoinit", "zero")
		if variant not in self.paths:
			variant = "zero"
		proc, uses = self._acquire(variant, fresh)
		run = Run(self, plan, proc)
		clean = False
		try:
			run.run_ops()
			clean = not run.viols
		finally:
			end = self._release(variant, proc, uses, clean)
		res = Result()
		if end is not None and clean and end[0] != 0:
			# exit status of an orderly shutdown: the sanitizer's leak check
			kind, frame = trxcon_proc.classify_report(end[1], end[0])
			run.viols.append({"clause": "C14.trxcon-crash", "owners": ["C14"],
				"signature": "C14.trxcon-crash/%s/%s" % (kind, frame or "-"),
				"detail": {"how": "exit status %s at shutdown" % end[0], "kind": kind,
					"report": [ln for ln in end[1].splitlines() if ln.strip()][:14]}})
		res.violations = run.viols
		res.faults = dict(run.faults)
		res.probes = dict(run.probes)
		res.steps = run.steps
		res.sim_ns = run.sim_ns
		res.choices = None
		run.log.append(["viol", [[v["clause"], v.get("signature")] for v in run.viols]])
		res.digest = digest_of(run.log)
		res.signature = digest_of([sorted(res.faults), sorted(res.probes), run.shape[:60]])
		res.nontrivial = run.answered >= 1 and run.hostile >= 1
		return res, uses > 0


ENGINE = TrxconEngine()
