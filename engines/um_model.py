# Reference model of the fake_trx world (DESIGN.md Appendix A) and the lock-step monitor
# that compares it with the recorded history of a simulated run.
#
# The model consumes exactly what the real code consumed (datagrams in the order the socket
# thread read them, clock ticks in the order they happened) and predicts what must leave the
# transceivers' sockets.  N = normative clause of a property statement; everything the
# statements leave open is a don't-care here.

import re

from sim import refcodec as rc

HYPER = rc.HYPER
P_NS = 4_615_000

RSSI_MIN, RSSI_MAX = -120, -47
TOA_MIN, TOA_MAX = -32768, 32767
CI_MIN, CI_MAX = -1280, 1280

KNOWN_VERBS = {
	"POWERON": (0,), "POWEROFF": (0,), "RXTUNE": (1,), "TXTUNE": (1,), "MEASURE": (1,),
	"SETFORMAT": (1,), "SETPOWER": (1,), "NOMTXPOWER": (0,), "RFMUTE": (1,), "SETTA": (1,),
	"FAKE_TOA": (1, 2), "FAKE_RSSI": (1, 2), "FAKE_CI": (1, 2), "FAKE_DROP": (1, 2),
	"FAKE_TRXC_DELAY": (1,),
}

# which properties own which oracle clause (DESIGN.md §2.8)
OWNERS = {
	"route.unexpected-recipient": ["C02"],
	"route.missing-recipient": ["C02"],
	"route.self-delivery": ["C02"],
	"route.powered-off-recipient": ["C02", "C12"],
	"route.destination-address": ["C12"],
	"queue.not-emitted": ["C03"],
	"queue.spurious-emission": ["C03"],
	"queue.emitted-after-poweroff": ["C03", "C12"],
	"queue.stale-report": ["C03"],
	"queue.accepted-while-idle": ["C03", "C12"],
	"queue.version-mismatch-accepted": ["C03"],
	"meta.header-version": ["C10"],
	"meta.legacy-padding": ["C10"],
	"meta.fn-tn": ["C10"],
	"meta.bits": ["C10"],
	"meta.rssi": ["C10"],
	"meta.toa": ["C10"],
	"meta.ci": ["C10"],
	"meta.modulation": ["C10"],
	"meta.tsc": ["C10"],
	"meta.malformed-datagram": ["C10"],
	"meta.invalid-sent": ["C10"],
	"drop.not-suppressed": ["C18"],
	"drop.suppressed-unexpectedly": ["C18"],
	"drop.nope-content": ["C18"],
	"drop.nope-missing": ["C18"],
	"drop.nope-on-v0": ["C18"],
	"drop.count": ["C18"],
	"ctrl.no-response": ["C05"],
	"ctrl.response-mismatch": ["C05"],
	"ctrl.response-destination": ["C05"],
	"ctrl.response-delay": ["C05"],
	"ctrl.unsolicited-response": ["C05"],
	"ctrl.response-to-non-cmd": ["C05"],
	"ctrl.extra-response": ["C05"],
	"power.poweron-status": ["C05", "C12"],
	"clock.ind-recipients": ["C12"],
	"clock.ind-payload": ["C12"],
	"clock.tick-while-stopped": ["C12"],
	"clock.no-ticks-while-running": ["C12"],
	"clock.first-frame": ["C12"],
	"clock.fn-sequence": ["C12"],
	"ports.bind-plan": ["C12"],
	"ports.unexpected-datagram": ["C12"],
}


# C05: "status and side effects follow the documented command semantics" — the effect of a
# command is only visible through later traffic, so C05 co-owns the clauses in which the
# observed behaviour contradicts the state the delivered commands should have produced.
for _c in ("route.unexpected-recipient", "route.missing-recipient", "route.powered-off-recipient",
		"queue.not-emitted", "queue.spurious-emission", "queue.accepted-while-idle", "queue.version-mismatch-accepted",
		"meta.header-version", "meta.rssi", "meta.toa", "meta.ci", "meta.bits",
		"drop.not-suppressed", "drop.suppressed-unexpectedly", "drop.count", "drop.nope-missing",
		"clock.ind-recipients", "clock.tick-while-stopped", "clock.no-ticks-while-running"):
	if "C05" not in OWNERS[_c]:
		OWNERS[_c] = OWNERS[_c] + ["C05"]


# C12: "POWEROFF also forgets the hopping configuration and all queued bursts", "a transceiver is
# running iff ...": what a transceiver is after a power history only shows in whom bursts
# reach, so C12 co-owns the routing clauses too.
for _c in ("route.unexpected-recipient", "route.missing-recipient"):
	if "C12" not in OWNERS[_c]:
		OWNERS[_c] = OWNERS[_c] + ["C12"]


class Trx:
	def __init__(self, i, d):
		self.i = i
		self.name = d.get("name")
		self.addr = d["addr"]
		self.base = d["port"]
		self.cidx = d.get("idx", 0)
		self.child_mgt = d.get("child_mgt", True)
		self.parent = None
		self.children = []
		self.running = False
		self.rx = None
		self.tx = None
		self.fh = None       # (hsn, maio, [(rx, tx), ...])
		self.ver = 0
		self.queue = []
		self.maybe = []      # bursts that were "behind" only in the integer view of the wrap
		self.ta = 0
		self.nominal = 50
		self.att = 0
		self.toa = [0, 0]
		self.rssi = [-60, 0]
		self.fake_rssi = False
		self.ci = [90, 0]
		self.muted = False
		self.drop_n = 0
		self.drop_p = 1
		self.rsp_delay = 0
		self.taint = set()

	@property
	def clock_owner(self):
		return self.cidx == 0

	@property
	def ctrl_port(self):
		return self.base + 1 + 2 * self.cidx

	@property
	def data_port(self):
		return self.base + 2 + 2 * self.cidx

	def label(self):
		return "%s:%d/%d" % (self.name or "?", self.base, self.cidx)


class Burst:
	__slots__ = ("fn", "tn", "pwr", "bits", "ver", "seq", "ambiguous")

	def __init__(self, d, seq):
		self.fn = d["fn"]
		self.tn = d["tn"]
		self.pwr = d["pwr"]
		self.bits = d["bits"]
		self.ver = d["ver"]
		self.seq = seq
		self.ambiguous = False


class Entry:
	"""One expected (burst, recipient) pair of a tick."""
	__slots__ = ("S", "R", "b", "suppress", "optional", "invalid", "matched", "why")

	def __init__(self, S, R, b):
		self.S = S
		self.R = R
		self.b = b
		self.suppress = "no"     # yes | no | maybe
		self.optional = False    # undefined frequencies: may or may not be delivered
		self.invalid = "no"      # no | must | may : simulated metadata outside protocol range
		self.matched = None
		self.why = ""


def _window_vs_range(base, thr, lo, hi, shift=0):
	"""Relation of the draw window [base-thr, base+thr]+shift to the valid range."""
	a, b = base - abs(thr) + shift, base + abs(thr) + shift
	if b < lo or a > hi:
		return "must"
	if a < lo or b > hi:
		return "may"
	return "no"


class UmModel:
	def __init__(self, cfg):
		self.cfg = cfg
		self.trx = [Trx(i, d) for i, d in enumerate(cfg["trx"])]
		for t in self.trx:
			if t.cidx > 0:
				for p in self.trx:
					if p.cidx == 0 and p.addr == t.addr and p.base == t.base:
						t.parent = p
						p.children.append(t)
						break
		self.start_fn = cfg.get("clck_start", 0)
		self.ind_period = cfg.get("ind_period", 102)
		self.clock_running = False
		self.clock_links = []   # Trx owning an active link
		self.next_fn = None
		self.clock_started_at = None
		self.ticks_since_start = 0
		self.clock_sessions = []
		self.port_map = {}
		for t in self.trx:
			self.port_map[t.ctrl_port] = (t, "ctrl")
			self.port_map[t.data_port] = (t, "data")
			if t.clock_owner:
				self.port_map[t.base] = (t, "clck")
		self.seq = 0
		self.stats = {}

	def probe(self, k, n=1):
		self.stats[k] = self.stats.get(k, 0) + n

	# ---- documented port plan -----------------------------------------------------------
	def expected_binds(self):
		return sorted(self.port_map)

	# ---- frequencies --------------------------------------------------------------------
	def freq(self, T, which, fn):
		if T.fh is not None:
			hsn, maio, ma = T.fh
			n = len(ma)
			mai = rc.hop_mai(hsn, maio, n, fn)
			t2 = fn % 26
			t3 = fn % 51
			if hsn:
				nbin = n.bit_length()
				if ((t2 + rc.RNTABLE[(hsn ^ ((fn // 1326) % 64)) + t3]) % (1 << nbin)) >= n:
					self.probe("hopping-deviation-branch")
			return ma[mai][0 if which == "rx" else 1]
		return T.rx if which == "rx" else T.tx

	# ---- power events -------------------------------------------------------------------
	def power_event(self, T, on, now):
		targets = [T] + (T.children if (T.child_mgt and T.cidx == 0) else [])
		for x in targets:
			x.running = on
			if not on:
				if x.queue:
					self.probe("queue-cleared-by-poweroff", len(x.queue))
				x.queue = []
				x.maybe = []
				x.fh = None
		if T.clock_owner:
			if T.running and T not in self.clock_links:
				self.clock_links.append(T)
			elif not T.running and T in self.clock_links:
				self.clock_links.remove(T)
			if self.clock_links and not self.clock_running:
				self.clock_running = True
				self.next_fn = self.start_fn
				self.clock_started_at = now
				self.ticks_since_start = 0
				self.probe("clock-start")
			elif not self.clock_links and self.clock_running:
				self.clock_running = False
				self.probe("clock-stop")
				# how long it should have been ticking, and how often it did
				self.clock_sessions.append((now - self.clock_started_at, self.ticks_since_start))

	# ---- control commands ---------------------------------------------------------------
	def on_ctrl(self, T, data, now):
		"""Returns None (no response expected) or a dict describing the expected response."""
		if len(data) > 1024:
			# longer than any L1 composes (trxcon's TRXC buffer is 1024 octets): may be truncated
			return {"hostile": "overlong"}
		try:
			parsed = rc.parse_cmd(data)
		except UnicodeDecodeError:
			return {"hostile": "non-utf8"}
		if parsed is None:
			return None
		verb, args = parsed
		if "\0" in verb or any("\0" in a for a in args):
			# a NUL inside the command line: nothing sensible can be echoed
			return {"hostile": "embedded-nul", "verb": verb, "args": args}
		self.probe("cmd-" + (verb if verb in KNOWN_VERBS else "other"))
		ints = []
		numeric = True
		for a in args:
			try:
				ints.append(int(a))
			except ValueError:
				numeric = False
				break
		status = 0
		results = []
		dontcare_status = False
		argc = len(args)
		if verb == "SETFH":
			if argc >= 4:
				if not numeric:
					return {"hostile": "non-numeric", "verb": verb, "args": args}
				if not 0 <= ints[0] <= 63:
					# HSN outside 0..63 has no meaning (TS 45.002): rejected or ignored, never applied
					return {"hostile": "hsn-range", "verb": verb, "args": args}
				pairs = [(ints[i] * 1000, ints[i + 1] * 1000) for i in range(2, len(ints) - 1, 2)]
				T.fh = (ints[0], ints[1], pairs)
				self.probe("setfh-%s" % ("long" if len(pairs) > 8 else "short"))
			else:
				dontcare_status = True
		elif verb in KNOWN_VERBS and argc not in KNOWN_VERBS[verb]:
			dontcare_status = True  # known verb, wrong argument count: any status, no effect (N)
			self.probe("cmd-wrong-argc")
		elif verb in KNOWN_VERBS and not numeric:
			return {"hostile": "non-numeric", "verb": verb, "args": args}
		elif verb == "POWERON":
			ready = (T.rx is not None and T.tx is not None) or T.fh is not None
			if T.running or not ready:
				status = -1
				self.probe("poweron-refused")
			else:
				self.power_event(T, True, now)
		elif verb == "POWEROFF":
			self.power_event(T, False, now)
		elif verb == "RXTUNE":
			T.rx = ints[0] * 1000
		elif verb == "TXTUNE":
			T.tx = ints[0] * 1000
		elif verb == "MEASURE":
			f = ints[0] * 1000
			found = any(x.running and x.fh is None and x.tx == f for x in self.trx)
			results = [("range", -75, -50) if found else ("range", -120, -105)]
			self.probe("measure-%s" % ("trx" if found else "noise"))
		elif verb == "SETFORMAT":
			v = ints[0]
			if v < 0 or v > 15:
				status = -1
			elif v in (0, 1):
				status = v
				T.ver = v
			else:
				status = 1
				self.probe("setformat-fallback")
		elif verb == "SETPOWER":
			T.att = ints[0]
		elif verb == "NOMTXPOWER":
			results = [str(T.nominal)]
		elif verb == "RFMUTE":
			T.muted = ints[0] > 0
		elif verb == "SETTA":
			T.ta = ints[0]
		elif verb in ("FAKE_TOA", "FAKE_CI") and argc == 2 and ints[1] < 0:
			# a negative randomisation threshold has no documented meaning: accepted or
			# rejected, the window is unknown until the next valid absolute command
			dontcare_status = True
			T.taint.add("toa" if verb == "FAKE_TOA" else "ci")
			self.probe("negative-threshold")
		elif verb == "FAKE_TOA":
			if argc == 2:
				T.toa = [ints[0], ints[1]]
				T.taint.discard("toa")
			else:
				T.toa[0] += ints[0]
		elif verb == "FAKE_RSSI":
			if argc == 2:
				if ints[1] < 0:
					T.fake_rssi = False
				else:
					T.rssi = [ints[0], ints[1]]
					T.fake_rssi = True
				T.taint.discard("rssi")
			else:
				T.rssi[0] += ints[0]
		elif verb == "FAKE_CI":
			if argc == 2:
				T.ci = [ints[0], ints[1]]
				T.taint.discard("ci")
			else:
				T.ci[0] += ints[0]
		elif verb == "FAKE_DROP":
			n = ints[0]
			p = ints[1] if argc == 2 else 1
			if n < 0 or p <= 0:
				status = -1
				self.probe("fake-drop-rejected")
			else:
				T.drop_n, T.drop_p = n, p
				T.taint.discard("drop")
		elif verb == "FAKE_TRXC_DELAY":
			T.rsp_delay = ints[0]
		# any other verb: acknowledged with 0, no effect (N)
		return {"verb": verb, "args": args, "status": None if dontcare_status else status,
			"results": results, "delay_ns": max(0, T.rsp_delay) * 1_000_000}

	# ---- data arrivals ------------------------------------------------------------------
	def on_data(self, T, data):
		"""Classify an L1->TRX datagram; returns 'accepted' / reason it is ignored."""
		d = rc.dec_tx(data)
		if d is None:
			self.probe("data-unparseable")
			return "unparseable"
		if d["ver"] != T.ver:
			self.probe("data-version-mismatch")
			return "version"
		if not T.running:
			self.probe("data-while-idle")
			return "idle"
		if d["fn"] >= HYPER:
			# no frame of the hyperframe has this number: whatever happens to it is a don't-care
			self.probe("data-beyond-hyperframe")
			return "beyond-hyperframe"
		self.seq += 1
		T.queue.append(Burst(d, self.seq))
		self.probe("data-accepted")
		return "accepted"

	# ---- ticks --------------------------------------------------------------------------
	def on_tick(self, fn):
		"""Returns (ind_links, entries, stales, emitted_bursts)."""
		inds = []
		if fn % self.ind_period == 0:
			inds = list(self.clock_links)
		entries = []
		stales = []
		emitted = []
		for S in self.trx:
			if not S.running:
				continue
			keep = []
			due = []
			for b in S.queue:
				if b.fn < fn:
					# Numerically behind — but a frame number just after the hyperframe wrap is *ahead*
					# of a clock just before it.  The statement leaves open whether such a burst is
					# "already passed" (integer view, what the code does) or still due (modular view).
					b.ambiguous = b.fn < HYPER and (b.fn - fn) % HYPER < HYPER // 2
					stales.append((S, b))
				elif b.fn == fn:
					due.append(b)
				else:
					keep.append(b)
			S.queue = keep
			for b in due:
				emitted.append((S, b))
				self._emit(S, b, fn, entries)
			# bursts kept by a modular-view implementation: their emission is optional
			still = []
			for b in S.maybe:
				if b.fn == fn:
					before = len(entries)
					self._emit(S, b, fn, entries)
					for e in entries[before:]:
						e.optional = True
						if e.suppress == "cand":
							e.suppress = "maybe"
							e.R.taint.add("drop")
					self.probe("wrap-ambiguous-emission")
				elif (b.fn - fn) % HYPER < HYPER // 2:
					still.append(b)
			S.maybe = still
		# FAKE_DROP: within one tick, which of several simultaneous bursts towards the same
		# receiver count as "the next n" is left open; the number is not.
		per_r = {}
		for e in entries:
			if e.suppress == "cand":
				per_r.setdefault(e.R.i, []).append(e)
		drop_counts = {}
		for ri, cands in per_r.items():
			R = self.trx[ri]
			if "drop" in R.taint:
				for e in cands:
					e.suppress = "maybe"
				drop_counts[ri] = None
				continue
			k = min(R.drop_n, len(cands))
			R.drop_n -= k
			if k == len(cands):
				for e in cands:
					e.suppress = "yes"
			elif k == 0:
				for e in cands:
					e.suppress = "no"
			else:
				for e in cands:
					e.suppress = "maybe"
				drop_counts[ri] = k
				self.probe("drop-partial-tick")
			if k:
				self.probe("burst-dropped", k)
		for e in entries:
			if e.suppress == "cand":
				e.suppress = "no"
		return inds, entries, stales, emitted, drop_counts

	def _emit(self, S, b, fn, entries):
		f = self.freq(S, "tx", fn)
		idle = len(b.bits) == 0
		for R in self.trx:
			if R is S or not R.running:
				continue
			rf = self.freq(R, "rx", fn)
			if f is None or rf is None:
				e = Entry(S, R, b)
				e.optional = True
				e.suppress = "maybe"
				if R.drop_n > 0:
					R.taint.add("drop")
				entries.append(e)
				self.probe("undefined-frequency")
				continue
			if rf != f:
				continue
			e = Entry(S, R, b)
			if R.muted or S.muted or idle:
				e.suppress = "yes"
				e.why = "muted" if (R.muted or S.muted) else "idle"
				self.probe("suppressed-" + e.why)
			elif R.drop_n > 0 and fn % R.drop_p == 0:
				e.suppress = "cand"
			elif "drop" in R.taint:
				e.suppress = "maybe"
			if len(b.bits) not in (0, rc.GMSK_LEN, rc.EDGE_LEN):
				e.invalid = "must"
			else:
				# simulated metadata outside the protocol ranges: nothing may be sent
				rel = []
				if R.fake_rssi:
					rel.append(_window_vs_range(R.rssi[0], R.rssi[1], RSSI_MIN, RSSI_MAX))
				else:
					v = S.nominal - S.att - b.pwr - 110
					rel.append("no" if RSSI_MIN <= v <= RSSI_MAX else "must")
				rel.append(_window_vs_range(R.toa[0], R.toa[1], TOA_MIN, TOA_MAX, -256 * S.ta))
				if R.ver == 1:
					rel.append(_window_vs_range(R.ci[0], R.ci[1], CI_MIN, CI_MAX))
				if "must" in rel:
					e.invalid = "must"
				elif "may" in rel:
					e.invalid = "may"
				if R.taint & {"toa", "rssi", "ci"}:
					e.invalid = "may"
			entries.append(e)


# ======================================================================================
STALE_RE = re.compile(r"\bstale\b", re.I)
_ADDR_RE = re.compile(r"\d+\.\d+\.\d+\.\d+(:\d+)?(/\d+)?|\[[0-9a-fA-F:]+\](:\d+)?(/\d+)?")


def log_names_fn(msg, fn):
	"""Does a (stale) report name frame number `fn`?  `fn=<n>` where the report uses that form,
	otherwise the number as a whole word — never the digits of an address or port."""
	if re.search(r"fn=\d", msg):
		return re.search(r"fn=%d(?!\d)" % fn, msg) is not None
	return re.search(r"(?<![\d.:])%d(?![\d.])" % fn, _ADDR_RE.sub(" ", msg)) is not None


class Monitor:
	"""Walks the recorded history once, steps the model, compares, collects violations."""

	def __init__(self, cfg, hostile=False, fine=False):
		self.m = UmModel(cfg)
		self.viols = []
		self.hostile = hostile
		self.fine = fine
		self.pending_rsp = {}     # ctrl port -> expectation
		self.in_tick = None
		self.tick_tx = []
		self.tick_logs = []
		self.tick_exp = None
		self.nticks = 0
		self.last_tick_t = None
		self.obligations = 0
		self.discharged = 0
		self.trace = []           # abstract state trace for the run signature
		self.seg_inds = []        # clock indications since the clock thread last went to sleep
		self.seg_tick = None      # (fn, expected link owners) of the tick in this segment
		self.clock_thread = None
		self.t_now = None
		sl = cfg.get("slow")
		# injected handler time: ticks lost to overruns while the machine was slow are no violation
		self.slack_ns = (sl["count"] * (sl["dur"] + P_NS)) if sl else 0

	def bad(self, clause, **detail):
		if len(self.viols) < 6:
			owners = list(OWNERS.get(clause, []))
			self.viols.append({"clause": clause, "detail": detail, "owners": owners})

	# ---------------------------------------------------------------------------------
	def check_binds(self, binds):
		want = self.m.expected_binds()
		got = sorted(p for _h, p in binds)
		if got != want:
			self.bad("ports.bind-plan", got=got, want=want)
		addr = self.m.cfg.get("bind_addr", "0.0.0.0")
		wrong = sorted({h for h, _p in binds if h != addr})
		if wrong:
			self.bad("ports.bind-plan", bound_to=wrong, want=addr)

	def feed(self, ev):
		t, kind, kw = ev
		self.t_now = t
		m = self.m
		if kind == "recv":
			port = kw["port"]
			T, iface = m.port_map.get(port, (None, None))
			if T is None:
				return
			if iface == "ctrl":
				if port in self.pending_rsp:
					self._rsp_missing(port)
				exp = m.on_ctrl(T, kw["data"], t)
				while m.clock_sessions:
					span, ticks = m.clock_sessions.pop()
					if span > 3 * P_NS and ticks < (span - self.slack_ns) // P_NS - 2:
						self.bad("clock.no-ticks-while-running", span_ns=span, ticks=ticks, at="clock stop")
				if exp is not None and "hostile" in exp:
					self._hostile_ctrl(T, exp, kw, t)
					return
				if exp is not None:
					exp["src"] = kw["src"]
					exp["req_len"] = len(kw["data"])
					exp["t"] = t
					exp["T"] = T
					self.pending_rsp[port] = exp
					self.obligations += 1
					self.trace.append(("c", T.i, exp["verb"] if exp["verb"] in KNOWN_VERBS else "?", exp["status"]))
				else:
					self.pending_rsp[port] = {"none": True, "T": T, "t": t, "data": kw["data"][:20]}
			elif iface == "data":
				r = m.on_data(T, kw["data"])
				self.trace.append(("d", T.i, r))
				if r == "accepted":
					self.obligations += 1
		elif kind == "tx":
			self._on_tx(t, kw)
		elif kind == "tick-begin":
			self._tick_begin(t, kw["fn"], kw.get("thread"))
		elif kind == "tick-end":
			self._tick_end(t, kw["fn"])
		elif kind == "log":
			if self.in_tick is not None and STALE_RE.search(kw["msg"]):
				fns = [int(x) for x in re.findall(r"fn=(\d+)", kw["msg"])]
				if fns and max(fns) >= HYPER:
					return  # report about a burst beyond the hyperframe: don't-care
				self.tick_logs.append(kw["msg"])
			elif STALE_RE.search(kw["msg"]):
				self.bad("queue.stale-report", why="stale report outside a clock tick", msg=kw["msg"][:100])
		elif kind == "wait-enter":
			if kw.get("thread") != "sock" and (self.clock_thread is None or kw.get("thread") == self.clock_thread):
				self._close_seg()
		elif kind == "thread-start":
			self._close_seg()
			self.clock_thread = None
		elif kind == "select-enter":
			# the socket thread is back in select(): every command it read has been handled
			for port in list(self.pending_rsp):
				self._rsp_missing(port)

	# ---------------------------------------------------------------------------------
	def _hostile_ctrl(self, T, exp, kw, t):
		"""Placeholder for C14 runs: the command's effect is unknown; taint what it may touch."""
		verb = exp.get("verb")
		taints = {"FAKE_TOA": "toa", "FAKE_RSSI": "rssi", "FAKE_CI": "ci", "FAKE_DROP": "drop"}
		if verb in taints:
			T.taint.add(taints[verb])
		self.pending_rsp[kw["port"]] = {"hostile": exp["hostile"], "T": T, "t": t, "verb": verb}

	def _rsp_missing(self, port):
		exp = self.pending_rsp.pop(port)
		if exp.get("none") or exp.get("hostile"):
			return
		if self.t_now is not None and self.t_now - exp["t"] < exp["delay_ns"]:
			return  # the configured response delay has not elapsed yet
		self.bad("ctrl.no-response", trx=exp["T"].label(), verb=exp["verb"], args=exp["args"][:6])

	def _on_tx(self, t, kw):
		m = self.m
		sport = kw["sport"]
		T, iface = m.port_map.get(sport, (None, None))
		if T is None:
			self.bad("ports.unexpected-datagram", sport=sport, dst=kw["dst"])
			return
		if iface == "ctrl":
			exp = self.pending_rsp.pop(sport, None)
			if exp is None:
				self.bad("ctrl.unsolicited-response", trx=T.label(), data=repr(kw["data"][:60]))
				return
			if exp.get("none"):
				self.bad("ctrl.response-to-non-cmd", trx=T.label(), request=repr(exp["data"]), data=repr(kw["data"][:60]))
				return
			if exp.get("hostile"):
				# at most one response to a hostile command; content is a don't-care
				return
			self.discharged += 1
			self._check_rsp(T, exp, kw, t)
		elif iface == "data":
			if self.in_tick is None:
				self.bad("queue.spurious-emission", why="data datagram outside a clock tick", trx=T.label())
				return
			self.tick_tx.append((T, kw))
		elif iface == "clck":
			self.seg_inds.append((T, kw))

	def _check_rsp(self, T, exp, kw, t):
		data = kw["data"]
		if tuple(kw["dst"]) != tuple(exp["src"]):
			self.bad("ctrl.response-destination", trx=T.label(), verb=exp["verb"], dst=kw["dst"], want=exp["src"])
		late = t - exp["t"] - exp["delay_ns"]
		# stopping the clock generator waits for the tick in progress: with an injected slow frame
		# handler a POWEROFF is answered up to one (slow) handler time later
		sl = self.m.cfg.get("slow")
		if late != 0 and not (sl and exp["verb"] == "POWEROFF" and 0 < late <= sl["dur"] + P_NS):
			self.bad("ctrl.response-delay", trx=T.label(), verb=exp["verb"], got_ns=t - exp["t"], want_ns=exp["delay_ns"])
		try:
			text = data.decode()
		except UnicodeDecodeError:
			self.bad("ctrl.response-mismatch", trx=T.label(), verb=exp["verb"], why="not text")
			return
		pre = ["RSP", exp["verb"]]
		post = list(exp["args"])
		toks_fixed = None
		if exp["status"] is not None:
			head = " ".join(pre + [str(exp["status"])] + post)
		else:
			head = None
		if not text.endswith("\0") or text.count("\0") != 1:
			self.bad("ctrl.response-mismatch", trx=T.label(), verb=exp["verb"], why="NUL termination", got=repr(text[:80]))
			return
		body = text[:-1]
		res = exp["results"]
		if head is not None:
			if not res:
				ok = body == head
			elif isinstance(res[0], tuple):
				ok = body.startswith(head + " ")
				if ok:
					tail = body[len(head) + 1:]
					try:
						v = int(tail)
						ok = res[0][1] <= v <= res[0][2] and str(v) == tail
					except ValueError:
						ok = False
			else:
				ok = body == head + " " + " ".join(res)
			if not ok:
				clause = "ctrl.response-mismatch"
				if exp["verb"] == "POWERON":
					clause = "power.poweron-status"
				self.bad(clause, trx=T.label(), got=repr(body[:100]), want=repr(head[:100]), results=str(res)[:40],
					got_len=len(body), want_len=len(head), request_octets=exp.get("req_len"))
		else:
			# status is a don't-care: "RSP <verb> <integer> <original arguments>"
			rx = r"^RSP %s -?\d+%s$" % (re.escape(exp["verb"]), re.escape((" " + " ".join(post)) if post else ""))
			if not re.match(rx, body):
				self.bad("ctrl.response-mismatch", trx=T.label(), got=repr(body[:100]), want="RSP %s <status> %s" % (exp["verb"], " ".join(post)[:60]))

	# ---------------------------------------------------------------------------------
	def _close_seg(self):
		m = self.m
		inds, self.seg_inds = self.seg_inds, []
		tick, self.seg_tick = self.seg_tick, None
		if tick is None:
			if inds:
				self.bad("clock.ind-recipients", why="clock indication without a tick", n=len(inds))
			return
		fn, links = tick
		want = sorted(x.i for x in links)
		got = sorted(T.i for T, _ in inds)
		if got != want:
			self.bad("clock.ind-recipients", fn=fn, got=got, want=want, period=m.ind_period)
		for T, kw in inds:
			if kw["data"] != b"IND CLOCK %d\0" % fn:
				self.bad("clock.ind-payload", fn=fn, got=repr(kw["data"][:40]))
			if tuple(kw["dst"]) != (T.addr, T.base + 100):
				self.bad("route.destination-address", iface="clck", trx=T.label(), dst=kw["dst"])
		if want:
			m.probe("clock-ind", len(want))

	def _tick_begin(self, t, fn, thread=None):
		m = self.m
		if thread is not None:
			self.clock_thread = thread
		self.in_tick = fn
		self.tick_tx = []
		self.tick_logs = []
		self.nticks += 1
		if not m.clock_running:
			self.bad("clock.tick-while-stopped", fn=fn)
			self.tick_exp = ([], [], [], [], {})
			return
		if fn != m.next_fn:
			if m.ticks_since_start == 0:
				self.bad("clock.first-frame", got=fn, want=m.next_fn)
			else:
				self.bad("clock.fn-sequence", got=fn, want=m.next_fn)
		m.next_fn = (fn + 1) % HYPER
		if fn == HYPER - 1:
			m.probe("hyperframe-wrap")
		m.ticks_since_start += 1
		self.last_tick_t = t
		self.tick_exp = m.on_tick(fn)
		if self.seg_tick is not None:
			self._close_seg()
		self.seg_tick = (fn, list(self.tick_exp[0]))

	def _tick_end(self, t, fn):
		inds, entries, stales, emitted, drop_counts = self.tick_exp
		m = self.m
		self.in_tick = None
		# ---- stale reports (bursts that are behind only in the integer view of the hyperframe
		# wrap may be reported stale now, or be kept and emitted in their frame: both accepted)
		definite = [(S, b) for S, b in stales if not b.ambiguous]
		ambiguous = [(S, b) for S, b in stales if b.ambiguous]
		# the mirror case: a burst numbered just before the wrap while the clock is just after it
		# is ahead in the integer view (waits, as the code does) but behind modulo the hyperframe
		late = [(S, b) for S in m.trx if S.running for b in S.queue if b.fn > fn and 0 < (fn - b.fn) % HYPER < HYPER // 2]
		if not (len(definite) <= len(self.tick_logs) <= len(stales) + len(late)):
			self.bad("queue.stale-report", fn=fn, reports=len(self.tick_logs), stale_bursts=len(definite),
				first=[(S.label(), b.fn) for S, b in stales[:3]])
		else:
			logs = list(self.tick_logs)
			for S, b in definite + ambiguous:
				hit = None
				for l in logs:
					if log_names_fn(l, b.fn):
						hit = l
						break
				if hit is None:
					if b.ambiguous:
						S.maybe.append(b)
						m.probe("wrap-ambiguous-kept")
						continue
					self.bad("queue.stale-report", fn=fn, why="no report names the stale burst", burst_fn=b.fn, logs=[l[:80] for l in logs[:2]])
					break
				logs.remove(hit)
				if b.ambiguous:
					m.probe("wrap-ambiguous-stale")
			for S, b in late:
				for l in logs:
					if log_names_fn(l, b.fn):
						logs.remove(l)
						S.queue.remove(b)
						m.probe("wrap-ambiguous-stale")
						break
			if logs and not self.viols:
				self.bad("queue.stale-report", fn=fn, why="stale report for a burst that is not stale", logs=[l[:80] for l in logs[:2]])
		if stales:
			m.probe("stale-burst", len(stales))
			self.discharged += len(stales)
		self.discharged += len(emitted)
		if len(emitted) > 1:
			m.probe("emit-list>1")
		# ---- data datagrams, per recipient
		data_tx = [(T, kw) for T, kw in self.tick_tx if kw["sport"] == T.data_port]
		by_r = {}
		for e in entries:
			by_r.setdefault(e.R.i, []).append(e)
		obs_by_r = {}
		for T, kw in data_tx:
			obs_by_r.setdefault(T.i, []).append(kw)
		for ri in sorted(set(by_r) | set(obs_by_r)):
			self._match_recipient(m.trx[ri], by_r.get(ri, []), obs_by_r.get(ri, []), fn, emitted, drop_counts.get(ri, "n/a"))
		self.trace.append(("t", len(emitted), len(stales), len(entries), len(data_tx)))

	def _match_recipient(self, R, exps, obs, fn, emitted, drop_k):
		"""Several bursts may share a slot (same frame and timeslot, even the same bits: dummy and
		frequency-correction bursts are constants).  Which datagram answers which of them is then
		open; the tick passes if SOME assignment explains everything, so the greedy matcher below
		is retried over the orders of the entries that share a slot."""
		slots = {}
		for e in exps:
			slots.setdefault((e.b.fn, e.b.tn), []).append(e)
		if len(exps) < 2 or all(len(v) < 2 for v in slots.values()):
			return self._match_once(R, exps, obs, fn, emitted, drop_k)
		import itertools
		base = len(self.viols)
		stats0 = dict(self.m.stats)
		reported0 = {k for k in self.__dict__ if k.startswith("_reported_")}
		first = None
		for n, perm in enumerate(itertools.islice(itertools.permutations(exps), 120)):
			for e in exps:
				e.matched = None
			del self.viols[base:]
			self.m.stats = dict(stats0)
			for k in [k for k in self.__dict__ if k.startswith("_reported_") and k not in reported0]:
				delattr(self, k)
			self._match_once(R, list(perm), obs, fn, emitted, drop_k)
			if len(self.viols) == base:
				if n:
					self.m.probe("slot-assignment-retried")
				return
			if first is None:
				first = list(self.viols[base:])
		# no assignment explains the tick: report what the natural order gave
		del self.viols[base:]
		self.viols.extend(first)

	def _match_once(self, R, exps, obs, fn, emitted, drop_k):
		m = self.m
		for kw in obs:
			if tuple(kw["dst"]) != (R.addr, R.base + 102 + 2 * R.cidx):
				self.bad("route.destination-address", iface="data", trx=R.label(), dst=kw["dst"])
			try:
				d = rc.dec_rx(kw["data"])
			except (ValueError, struct_error) as e:
				self.bad("meta.malformed-datagram", trx=R.label(), why=str(e))
				continue
			cand = None
			nope = d.get("nope", False)
			# find the expected entry this datagram answers
			usbits = None
			if not nope:
				body = d["body"]
				if d["ver"] == 0:
					nb = len(body) - 2
				else:
					nb = len(body)
				usbits = body[:nb] if nb >= 0 else body
			# definite expectations first; a NOPE.ind goes to a surely-suppressed burst before a "maybe"
			for e in sorted(exps, key=lambda x: (x.optional, nope and x.suppress != "yes")):
				if e.matched is not None or e.b.tn != d["tn"] or e.b.fn != d["fn"]:
					continue
				if nope:
					if e.suppress in ("yes", "maybe"):
						cand = e
						break
				else:
					if e.suppress != "yes" and e.invalid != "must" and _usbits(e.b.bits) == bytes(usbits):
						# several identical bursts in one slot (e.g. dummy bursts): prefer the one
						# whose sender-side values explain the datagram
						if cand is None:
							cand = e
						rssi_fits = R.fake_rssi or "rssi" in R.taint or d["rssi"] == e.S.nominal - e.S.att - e.b.pwr - 110
						toa_fits = "toa" in R.taint or (R.toa[0] - abs(R.toa[1]) - 256 * e.S.ta <= d["toa256"] <= R.toa[0] + abs(R.toa[1]) - 256 * e.S.ta)
						if rssi_fits and toa_fits:
							cand = e
							break
			if cand is None:
				self._unmatched_obs(R, d, nope, usbits, exps, fn, emitted)
				continue
			cand.matched = d
			if nope:
				self._check_nope(R, cand, d, kw)
			else:
				self._check_burst(R, cand, d, kw)
		# expected entries nobody answered
		suppressed = 0
		for e in exps:
			if e.matched is not None:
				if e.matched.get("nope"):
					suppressed += 1
				continue
			if e.optional:
				continue
			if e.suppress == "yes":
				suppressed += 1
				if R.ver == 1:
					self.bad("drop.nope-missing", fn=fn, trx=R.label(), tn=e.b.tn, why=e.why)
				continue
			if e.suppress == "maybe":
				suppressed += 1
				if R.ver == 1 and "drop" not in R.taint and e.invalid == "no":
					# neither the burst nor a NOPE.ind: on a v1 link one of the two must appear
					self.bad("drop.nope-missing", fn=fn, trx=R.label(), tn=e.b.tn, why="drop counter")
				continue
			if e.invalid in ("must", "may"):
				m.probe("invalid-metadata-not-sent")
				continue
			# a burst that should have reached R did not
			same = [x for x in self.tick_exp[1] if x.b is e.b]
			if any(x.matched is not None for x in same):
				self.bad("route.missing-recipient", fn=fn, sender=e.S.label(), recipient=R.label(), tn=e.b.tn)
			elif not getattr(self, "_reported_" + str(e.b.seq), False):
				setattr(self, "_reported_" + str(e.b.seq), True)
				if len(self.viols) < 6:
					self.viols.append({"clause": "queue.not-emitted",
						"detail": {"fn": fn, "sender": e.S.label(), "recipient": R.label(), "tn": e.b.tn,
							"expected_recipients": len(same)},
						"owners": ["C03", "C02", "C05", "C12"]})
		if isinstance(drop_k, int):
			maybe = [e for e in exps if e.suppress == "maybe" and not e.optional]
			sure = sum(1 for e in maybe if (e.matched is not None and e.matched.get("nope")) or
				(e.matched is None and e.invalid == "no"))
			possible = sure + (sum(1 for e in maybe if e.matched is None and e.invalid != "no") if R.ver == 0 else 0)
			if not (sure <= drop_k <= possible):
				self.bad("drop.count", fn=fn, trx=R.label(), suppressed=(sure, possible), want=drop_k)

	def _unmatched_obs(self, R, d, nope, usbits, exps, fn, emitted):
		m = self.m
		same_slot = [e for e in exps if e.matched is None and e.b.tn == d["tn"] and e.b.fn == d["fn"]]
		if nope:
			if R.ver == 0 or d["ver"] == 0:
				self.bad("drop.nope-on-v0", fn=fn, trx=R.label())
			elif same_slot:
				self.bad("drop.suppressed-unexpectedly", fn=fn, trx=R.label(), tn=d["tn"],
					drop=(R.drop_n, R.drop_p), muted=R.muted)
				same_slot[0].matched = d
			else:
				self.bad("queue.spurious-emission", fn=fn, trx=R.label(), what="NOPE.ind nobody caused", tn=d["tn"])
			return
		if same_slot:
			e = same_slot[0]
			e.matched = d
			if e.suppress == "yes":
				self.bad("drop.not-suppressed", fn=fn, trx=R.label(), tn=d["tn"], why=e.why, ver=R.ver)
			elif e.invalid == "must":
				self.bad("meta.invalid-sent", fn=fn, trx=R.label(), tn=d["tn"], rssi=d["rssi"], toa256=d["toa256"], ci=d.get("ci"))
			else:
				self.bad("meta.bits", fn=fn, trx=R.label(), tn=d["tn"], got_len=len(usbits), want_len=len(e.b.bits),
					first_diff=_first_diff(_usbits(e.b.bits), bytes(usbits)))
			return
		# nothing was expected for R in this slot: is it a burst emitted in this tick at all?
		src = [(S, b) for S, b in emitted if b.tn == d["tn"] and b.fn == d["fn"] and _usbits(b.bits) == bytes(usbits)]
		if d["fn"] != fn:
			self.bad("queue.spurious-emission", fn=fn, trx=R.label(), what="burst of another frame", burst_fn=d["fn"])
		elif src:
			S = src[0][0]
			if S is R:
				self.bad("route.self-delivery", fn=fn, trx=R.label())
			elif not R.running:
				self.bad("route.powered-off-recipient", fn=fn, trx=R.label(), sender=S.label())
			else:
				self.bad("route.unexpected-recipient", fn=fn, sender=S.label(), recipient=R.label(),
					tx=m.freq(S, "tx", fn), rx=m.freq(R, "rx", fn), hopping=(S.fh is not None, R.fh is not None))
		else:
			any_running = any(T.running for T in m.trx)
			self.bad("queue.emitted-after-poweroff" if not any_running else "queue.spurious-emission",
				fn=fn, trx=R.label(), what="burst that was not due in this tick", tn=d["tn"])

	def _check_nope(self, R, e, d, kw):
		if d["ver"] != 1:
			self.bad("drop.nope-on-v0", trx=R.label())
			return
		if d["body"] or d["rssi"] != -110 or d["toa256"] != 0 or d["ci"] != -30:
			self.bad("drop.nope-content", trx=R.label(), rssi=d["rssi"], toa256=d["toa256"], ci=d["ci"], bits=len(d["body"]))
		if e.suppress == "no":
			self.bad("drop.suppressed-unexpectedly", trx=R.label(), tn=d["tn"])
		self.m.probe("nope-ind")

	def _check_burst(self, R, e, d, kw):
		m = self.m
		S, b = e.S, e.b
		if d["ver"] != R.ver:
			self.bad("meta.header-version", trx=R.label(), got=d["ver"], want=R.ver)
			return
		nbits = len(b.bits)
		if d["ver"] == 0:
			body = d["body"]
			if len(body) != nbits + 2 or body[-2:] != b"\0\0":
				self.bad("meta.legacy-padding", trx=R.label(), body_len=len(body), bits=nbits)
			m.probe("legacy-padding-sent")
		if e.invalid == "must":
			self.bad("meta.invalid-sent", trx=R.label(), rssi=d["rssi"], toa256=d["toa256"], ci=d.get("ci"))
			return
		# RSSI
		if "rssi" not in R.taint:
			if R.fake_rssi:
				lo, hi = R.rssi[0] - R.rssi[1], R.rssi[0] + R.rssi[1]
				if not (lo <= d["rssi"] <= hi):
					self.bad("meta.rssi", trx=R.label(), got=d["rssi"], window=(lo, hi), mode="FAKE_RSSI")
				m.probe("fake-rssi")
			else:
				want = S.nominal - S.att - b.pwr - 110
				if d["rssi"] != want:
					self.bad("meta.rssi", trx=R.label(), sender=S.label(), got=d["rssi"], want=want, att=S.att, pwr=b.pwr)
		# ToA
		if "toa" not in R.taint:
			lo = R.toa[0] - R.toa[1] - 256 * S.ta
			hi = R.toa[0] + R.toa[1] - 256 * S.ta
			if not (lo <= d["toa256"] <= hi):
				self.bad("meta.toa", trx=R.label(), sender=S.label(), got=d["toa256"], window=(lo, hi), ta=S.ta)
			if S.ta:
				m.probe("timing-advance")
		if d["ver"] == 1:
			if "ci" not in R.taint:
				lo, hi = R.ci[0] - R.ci[1], R.ci[0] + R.ci[1]
				if not (lo <= d["ci"] <= hi):
					self.bad("meta.ci", trx=R.label(), got=d["ci"], window=(lo, hi))
			if nbits == rc.EDGE_LEN:
				if d.get("mod") != "8PSK":
					self.bad("meta.modulation", trx=R.label(), got=d.get("mod"), want="8PSK")
				m.probe("edge-burst")
			else:
				cands = rc.ts_candidates(b.bits)
				mods = {"GMSK"} | ({"GMSK_AB"} if any(c[2] == "AB" for c in cands) else set())
				if d.get("mod") not in mods:
					self.bad("meta.modulation", trx=R.label(), got=d.get("mod"), want=sorted(mods))
				elif cands:
					if (d["tsc"], d["tsc_set"]) not in {(c[0], c[1]) for c in cands}:
						self.bad("meta.tsc", trx=R.label(), got=(d["tsc"], d["tsc_set"]), want=[(c[0], c[1], c[2]) for c in cands])
					m.probe("tsc-" + cands[0][2])
		if e.suppress == "yes":
			self.bad("drop.not-suppressed", trx=R.label(), tn=d["tn"], why=e.why)

	# ---------------------------------------------------------------------------------
	def finish(self, t_end, threads_dead):
		m = self.m
		self.t_now = t_end
		for port in list(self.pending_rsp):
			self._rsp_missing(port)
		self._close_seg()
		if m.clock_running and m.clock_started_at is not None:
			span = t_end - m.clock_started_at
			if span > 3 * P_NS and m.ticks_since_start < (span - self.slack_ns) // P_NS - 2:
				self.bad("clock.no-ticks-while-running", span_ns=span, ticks=m.ticks_since_start)
		return self.viols


def _usbits(bits):
	return bytes(254 if x else 0 for x in bits)


def _first_diff(a, b):
	for i, (x, y) in enumerate(zip(a, b)):
		if x != y:
			return (i, x, y)
	return None


from struct import error as struct_error  # noqa: E402
