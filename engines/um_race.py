# C03 fine-schedule profile: one arrival / power / format / tuning datagram released at
# exactly the instant of a clock tick, the two threads interleaved at source-line
# granularity, and a burst-centric, linearisation-tolerant oracle (DESIGN.md §5/C03).

import re

from sim import refcodec as rc
from engines.um_model import UmModel, P_NS, HYPER

TRACE_FILES = ("transceiver.py", "burst_fwd.py", "fake_trx.py", "data_if.py", "clck_gen.py",
	"gsm_shared.py", "ctrl_if.py", "ctrl_if_trx.py")


# ------------------------------------------------------------------ plan generation ----
def build_race_plan(rng, tier, prop=None):
	"""BTS (0) and MS (1) tuned to each other, plus one passive sniffer per sender that is
	never commanded after set-up, so that every emission is observable on the wire."""
	ports = [5700 + 400 * k for k in range(10)]
	rng.shuffle(ports)
	A, B, C, D = 935000, 890000, 935200, 890200
	# the sniffers are either transceivers of their own (then the shared clock never stops) or
	# children of the MS, whose children are not managed by their parent and own no clock link
	# (then powering off BTS and MS stops the clock generator while a tick may be in progress)
	own_clock = rng.random() < 0.5
	trx = [
		{"name": "BTS", "addr": "127.0.0.1", "port": ports[0], "idx": 0, "child_mgt": True},
		{"name": "MS", "addr": "127.0.0.1", "port": ports[1], "idx": 0, "child_mgt": False},
	]
	if own_clock:
		trx += [{"name": "SNB", "addr": "127.0.0.1", "port": ports[2], "idx": 0, "child_mgt": True},   # sniffs the BTS
			{"name": "SNM", "addr": "127.0.0.1", "port": ports[3], "idx": 0, "child_mgt": True}]   # sniffs the MS
	else:
		trx += [{"name": "SNB", "addr": "127.0.0.1", "port": ports[1], "idx": 1, "child_mgt": True},
			{"name": "SNM", "addr": "127.0.0.1", "port": ports[1], "idx": 2, "child_mgt": True}]
	# C12 is about parents and their managed children: its runs mostly have a child transceiver
	child = rng.random() < (0.6 if prop == "C12" else 0.3)
	if child:
		trx.append({"name": "BC1", "addr": "127.0.0.1", "port": ports[0], "idx": 1, "child_mgt": True})
	ops = []

	def cmd(i, text, dt=0, **kw):
		op = {"op": "cmd", "trx": i, "text": text, "dt": dt}
		op.update(kw)
		ops.append(op)

	ms_hops = rng.random() < 0.7
	bts_ver = rng.choice([0, 1])
	ms_ver = rng.choice([0, 1])
	cmd(0, "RXTUNE %d" % B)
	cmd(0, "TXTUNE %d" % A)
	cmd(1, "RXTUNE %d" % A)
	cmd(1, "TXTUNE %d" % B)
	cmd(2, "RXTUNE %d" % A)
	cmd(2, "TXTUNE %d" % C)
	cmd(3, "RXTUNE %d" % B)
	cmd(3, "TXTUNE %d" % D)
	if child:
		cmd(4, "RXTUNE %d" % B)
		cmd(4, "TXTUNE %d" % A)
	if bts_ver:
		cmd(0, "SETFORMAT 1")
	if ms_ver:
		cmd(1, "SETFORMAT 1")
	if rng.random() < 0.5:
		cmd(2, "SETFORMAT 1")
		cmd(3, "SETFORMAT 1")
	if ms_hops:
		# the MS hops over channels that all have the BTS's Tx as Rx and its own Tx fixed, so
		# routing does not depend on the frame while the hopping code is on the tick's path
		n = rng.choice([1, 2, 3])
		cmd(1, "SETFH %d 0 %s" % (rng.choice([0, 5, 17]), " ".join("%d %d" % (A, B) for _ in range(n))))
	for i in (2, 3, 0, 1):
		cmd(i, "POWERON", dt=rng.choice([0, 1000]))
	ops.append({"op": "idle", "dt": rng.randint(2, 6) * P_NS})
	ver = {0: bts_ver, 1: ms_ver, 4: 0}
	senders = [0, 1] + ([4] if child else [])
	nraces = rng.choice([2, 3, 3, 4])
	for _ in range(nraces):
		back = []
		# some bursts already queued for the coming frames
		pre = [rng.choice(senders) for _k in range(rng.choice([0, 1, 2, 4, 8]))]
		if rng.random() < 0.8:
			pre += senders  # every sender has something due in the racing tick: the tick does real work
		for s in pre:
			ops.append({"op": "burst", "trx": s, "adv": rng.choice([1, 1, 1, 2, 3]), "tn": rng.randrange(8), "pwr": rng.choice([0, 10]),
				"kind": rng.choice(["NB", "RAND", "SB", "AB", "EDGE"]), "bseed": rng.randrange(1 << 30), "ver": ver[s],
				"dt": rng.choice([0, 0, 1000])})
		# the racing datagram, released at the instant of the next tick
		r = rng.random()
		s = rng.choice(senders)
		if r < 0.3:
			op = {"op": "burst", "trx": s, "adv": rng.choice([1, 1, 1, 2, 0, 3]), "tn": rng.randrange(8), "pwr": 0,
				"kind": rng.choice(["NB", "RAND"]), "bseed": rng.randrange(1 << 30), "ver": ver[s]}
		elif r < 0.65:
			op = {"op": "cmd", "trx": rng.choice([0, 0, 1] if (prop == "C12" and child) else [0, 1, 1]), "text": "POWEROFF"}
			if not own_clock and rng.random() < 0.6:
				# the other clock owner is already off: this POWEROFF stops the clock generator
				ops.append({"op": "cmd", "trx": 1 - op["trx"], "text": "POWEROFF", "dt": 1000})
				back.append(1 - op["trx"])
		elif r < 0.75:
			v = rng.choice([0, 1])
			t = rng.choice([0, 1])
			op = {"op": "cmd", "trx": t, "text": "SETFORMAT %d" % v}
			ver[t] = v
		elif r < 0.85:
			op = {"op": "cmd", "trx": 1, "text": "SETFH %d 0 %s" % (rng.choice([0, 9]), " ".join("%d %d" % (A, B) for _ in range(rng.choice([1, 2]))))}
		elif r < 0.93:
			op = {"op": "cmd", "trx": rng.choice([0, 1]), "text": rng.choice(["RXTUNE %d" % rng.choice([A, B]), "SETTA 2", "FAKE_DROP 0", "RFMUTE 0"])}
		else:
			op = {"op": "cmd", "trx": rng.choice([0, 1]), "text": "POWERON"}
		op["dt"] = rng.choice([1000, P_NS // 2])
		op["sync"] = "tick"
		ops.append(op)
		if op["op"] == "cmd" and op["text"] == "POWEROFF" and rng.random() < 0.7:
			t = op["trx"]
			if t == 1 and ms_hops and rng.random() < 0.7:
				ops.append({"op": "cmd", "trx": 1, "dt": 2 * P_NS, "text": "SETFH 0 0 %d %d" % (A, B)})
			ops.append({"op": "cmd", "trx": t, "text": "POWERON", "dt": rng.choice([P_NS, 2 * P_NS])})
		for t in back:
			if t == 1 and ms_hops:
				ops.append({"op": "cmd", "trx": 1, "dt": P_NS, "text": "SETFH 0 0 %d %d" % (A, B)})
			ops.append({"op": "cmd", "trx": t, "text": "POWERON", "dt": P_NS})
		ops.append({"op": "idle", "dt": rng.randint(1, 4) * P_NS})
	ops.append({"op": "idle", "dt": 6 * P_NS})
	start = rng.choice([0, 0, rng.randrange(HYPER), HYPER - 1 - rng.randrange(20)])
	cfg = {"trx": trx, "clck_start": start, "ind_period": rng.choice([102, 1, 13]), "bind_addr": "0.0.0.0",
		"mode": "fine", "fine": {"strategy": rng.choice(["sweep", "sweep", "sweep", "sweep", "sweep", "pct2", "pct3", "walk"]),
			"k": rng.randrange(1 << 20), "p": rng.choice([0.02, 0.05, 0.2]), "first": rng.randrange(2)},
		"sniffers": {"0": 2, "1": 3, "4": 2}}
	return {"engine": "um", "seed": None, "config": cfg, "ops": ops}


# ------------------------------------------------------------------ the oracle ---------
def trx_str(t):
	"""Transceiver.__str__ as documented: [name@]addr:port[/idx]."""
	d = "%s:%d" % (t["addr"], t["port"])
	if t.get("idx", 0) > 0:
		d += "/%d" % t["idx"]
	if t.get("name") is not None:
		d = "%s@%s" % (t["name"], d)
	return d


STALE_RE = re.compile(r"\bstale\b", re.I)


def check_race(history, cfg):
	"""Burst-centric C03 oracle for fine schedules.  Sock-thread events are sequential among
	themselves and are replayed through the reference model; only their order relative to the
	clock thread's ticks is open, and every order is accepted."""
	viols = []

	def bad(clause, **detail):
		if len(viols) < 6:
			viols.append({"clause": clause, "detail": detail, "owners": ["C03"]})

	model = UmModel(cfg)
	trx = cfg["trx"]
	labels = {trx_str(t): i for i, t in enumerate(trx)}
	sniff = {int(k): v for k, v in cfg.get("sniffers", {}).items()}
	data_port = {m.data_port: m for m in model.trx}
	# ---- pass 1: index ticks, arrivals, power-offs, emissions, stale reports ------------
	ticks = []        # [begin_idx, end_idx, fn]
	bursts = []       # dict per accepted burst
	poweroffs = []    # (trx index set, start_idx, end_idx)
	cur_tick = None
	pending_sock = None   # burst whose arrival interval is still open
	pending_off = None
	emissions = []    # (tick_no or None, sniffer trx index, decoded)
	stales = []       # (tick_no, trx index, burst fn, tn)
	for idx, (t, kind, kw) in enumerate(history):
		if kind in ("recv", "select-enter"):
			if pending_sock is not None:
				pending_sock["a1"] = idx
				pending_sock = None
			if pending_off is not None:
				pending_off[2] = idx
				pending_off = None
		if kind == "recv":
			T, iface = model.port_map.get(kw["port"], (None, None))
			if T is None:
				continue
			if iface == "data":
				r = model.on_data(T, kw["data"])
				if r == "accepted":
					d = rc.dec_tx(kw["data"])
					b = {"S": T.i, "fn": d["fn"], "tn": d["tn"], "bits": d["bits"], "a0": idx, "a1": None, "n": len(bursts)}
					bursts.append(b)
					pending_sock = b
			elif iface == "ctrl":
				was = [x.i for x in model.trx if x.running]
				exp = model.on_ctrl(T, kw["data"], t)
				now = [x.i for x in model.trx if x.running]
				off = set(was) - set(now)
				if exp and exp.get("verb") == "POWEROFF" and exp.get("status") == 0:
					targets = {T.i} | {c.i for c in (T.children if (T.child_mgt and T.cidx == 0) else [])}
					pending_off = [targets, idx, None]
					poweroffs.append(pending_off)
		elif kind == "tick-begin":
			cur_tick = len(ticks)
			ticks.append([idx, None, kw["fn"]])
		elif kind == "tick-end":
			if cur_tick is not None:
				ticks[cur_tick][1] = idx
			cur_tick = None
		elif kind == "tx":
			T, iface = model.port_map.get(kw["sport"], (None, None))
			if T is not None and iface == "data":
				try:
					d = rc.dec_rx(kw["data"])
				except Exception:
					bad("C03.malformed-datagram", trx=T.label())
					continue
				emissions.append((cur_tick, T.i, d, idx))
		elif kind == "log":
			msg = kw["msg"]
			if STALE_RE.search(msg):
				# which transceiver and which burst the report names, without relying on the exact
				# wording: the transceiver's printed name, the frame number as a whole number, tn=<n>
				who = None
				for lab in sorted(labels, key=len, reverse=True):
					if lab in msg:
						who = labels[lab]
						break
				fns = re.findall(r"fn=(\d+)", msg)
				if fns:
					nums = {int(x) for x in fns}
				else:
					from engines.um_model import _ADDR_RE
					nums = {int(x) for x in re.findall(r"(?<![\d.:])\d+(?![\d.])", _ADDR_RE.sub(" ", msg))}
				tnm = re.search(r"\btn=(\d+)", msg)
				stales.append((cur_tick, who, nums, int(tnm.group(1)) if tnm else None, idx))
		elif kind == "thread-death":
			bad("C03.thread-death", thread=kw["thread"], exc=kw["exc"], msg=kw["msg"], where=kw["where"])
	# every command read by the socket thread is answered before it reads the next datagram
	pend = None
	for idx, (t, kind, kw) in enumerate(history):
		if kind == "recv":
			T, iface = model.port_map.get(kw["port"], (None, None))
			if pend is not None:
				viols.append({"clause": "C05.race-no-response", "owners": ["C05"], "detail": {"request": repr(pend[1][:40])}})
				pend = None
			if iface == "ctrl" and kw["data"].startswith(b"CMD"):
				pend = (kw["port"], kw["data"])
		elif kind == "tx" and pend is not None and kw["sport"] == pend[0]:
			pend = None
	if pend is not None:
		viols.append({"clause": "C05.race-no-response", "owners": ["C05"], "detail": {"request": repr(pend[1][:40]), "at": "end of run"}})
	end_idx = len(history)
	for b in bursts:
		if b["a1"] is None:
			b["a1"] = end_idx
	for p in poweroffs:
		if p[2] is None:
			p[2] = end_idx
	for tk in ticks:
		if tk[1] is None:
			tk[1] = end_idx
	# ---- pass 2: per burst, the set of allowed outcomes vs. what was observed --------------
	stats = {"bursts": len(bursts), "concurrent-arrival": 0, "concurrent-poweroff": 0, "emitted": 0, "stale": 0, "cleared": 0, "queued": 0}
	used_em = set()
	used_st = set()
	# 1. what is allowed and what was emitted (emissions are identified by their bits)
	for b in bursts:
		S = b["S"]
		sn = sniff.get(S)
		usb = bytes(254 if x else 0 for x in b["bits"])
		b["em"] = []
		for k, (tick_no, ti, d, idx) in enumerate(emissions):
			if k in used_em or ti != sn or d.get("nope"):
				continue
			body = d["body"][:-2] if d["ver"] == 0 else d["body"]
			if d["fn"] == b["fn"] and d["tn"] == b["tn"] and bytes(body) == usb and idx > b["a0"]:
				b["em"].append((k, tick_no))
				used_em.add(k)
		possible = {"queued"}
		allowed = set()
		events = []
		for j, (tb, te, fn) in enumerate(ticks):
			if te < b["a0"]:
				continue
			events.append((tb, "tick", j))
		for targets, p0, p1 in poweroffs:
			if S in targets and p0 > b["a0"]:
				events.append((p0, "off", (p0, p1)))
		events.sort()
		for pos, what, arg in events:
			if "queued" not in possible:
				break
			if what == "off":
				p0, p1 = arg
				possible.discard("queued")
				possible.add("cleared")
				for j, (tb, te, fn) in enumerate(ticks):
					if tb < p1 and te > p0 and te >= b["a0"]:
						stats["concurrent-poweroff"] += 1
						if fn == b["fn"]:
							allowed.add(("emit", j))
						elif fn > b["fn"]:
							allowed.add(("stale", j))
			else:
				j = arg
				tb, te, fn = ticks[j]
				concurrent = tb < b["a1"]  # the tick began before the arrival was complete
				# a power-off that began before this tick ended may already have taken the burst
				off_overlap = any(S in tg and p0 < te and p1 > tb and p0 > b["a0"] for tg, p0, p1 in poweroffs)
				if concurrent:
					stats["concurrent-arrival"] += 1
				if fn == b["fn"]:
					allowed.add(("emit", j))
					if not concurrent and not off_overlap:
						possible.discard("queued")
				elif fn < b["fn"] and 0 < (fn - b["fn"]) % HYPER < HYPER // 2:
					# ahead in the integer view, behind modulo the hyperframe: may be reported stale
					allowed.add(("stale", j))
				elif fn > b["fn"]:
					allowed.add(("stale", j))
					# behind only in the integer view of the hyperframe wrap: may also be kept
					amb = (b["fn"] - fn) % HYPER < HYPER // 2
					if not concurrent and not off_overlap and not amb:
						possible.discard("queued")
		if "cleared" in possible:
			allowed.add("cleared")
		if "queued" in possible:
			allowed.add("queued")
		b["allowed"] = allowed
		b["st"] = []
	# 2. stale reports name (transceiver, fn, tn) only: hand each to a burst of that group that
	#    has no outcome yet, preferring one for which a stale report in that tick is allowed
	for k, (tick_no, ti, nums, tn, idx) in enumerate(stales):
		group = [b for b in bursts if (ti is None or b["S"] == ti) and b["fn"] in nums and (tn is None or b["tn"] == tn)
			and idx > b["a0"] and not b["em"] and not b["st"]]
		group.sort(key=lambda b: (("stale", tick_no) not in b["allowed"], b["n"]))
		if group:
			group[0]["st"].append((k, tick_no))
			used_st.add(k)
	# 3. judge (only senders whose sniffer is really listening: powered on, tuned to the sender's
	#    fixed Tx frequency — a minimised replay plan may have lost its set-up commands)
	def sniffer_ok(S):
		sn = sniff.get(S)
		if sn is None or sn >= len(model.trx):
			return False
		R, T = model.trx[sn], model.trx[S]
		if T.fh is None:
			tx = T.tx
		else:  # hopping over channels that all share one Tx frequency is as good as fixed
			txs = {p[1] for p in T.fh[2]}
			tx = txs.pop() if len(txs) == 1 else None
		return R.running and R.fh is None and tx is not None and R.rx == tx \
			and not R.muted and not T.muted and R.drop_n == 0 and not R.fake_rssi

	stats["unobservable"] = 0
	for b in bursts:
		S = b["S"]
		if not sniffer_ok(S):
			stats["unobservable"] += 1
			continue
		allowed = b["allowed"]
		obs_em, obs_st = b["em"], b["st"]
		n_out = len(obs_em) + len(obs_st)
		if n_out == 0:
			if "cleared" in allowed:
				stats["cleared"] += 1
			elif "queued" in allowed:
				stats["queued"] += 1
			else:
				bad("C03.burst-vanished", sender=model.trx[S].label(), fn=b["fn"], tn=b["tn"],
					allowed=sorted(str(a) for a in allowed)[:4])
			continue
		if n_out > 1:
			bad("C03.two-outcomes", sender=model.trx[S].label(), fn=b["fn"], tn=b["tn"], emitted=len(obs_em), stale=len(obs_st))
		if obs_em:
			k, tick_no = obs_em[0]
			stats["emitted"] += 1
			if allowed <= {"cleared"} and tick_no is not None:
				viols.append({"clause": "C03.emitted-after-poweroff", "owners": ["C03", "C12"],
					"detail": {"sender": model.trx[S].label(), "fn": b["fn"], "tn": b["tn"], "tick_fn": ticks[tick_no][2]}})
			elif tick_no is None or ("emit", tick_no) not in allowed:
				bad("C03.emitted-in-wrong-tick", sender=model.trx[S].label(), fn=b["fn"], tn=b["tn"],
					tick_fn=ticks[tick_no][2] if tick_no is not None else None, allowed=sorted(str(a) for a in allowed)[:4])
		elif obs_st:
			k, tick_no = obs_st[0]
			stats["stale"] += 1
			if tick_no is None or ("stale", tick_no) not in allowed:
				bad("C03.stale-report-wrong", sender=model.trx[S].label(), fn=b["fn"], tn=b["tn"],
					tick_fn=ticks[tick_no][2] if tick_no is not None else None, allowed=sorted(str(a) for a in allowed)[:4])
	# ---- whatever the sniffers saw must belong to an accepted burst -----------------------
	snset = set(sniff.values())
	for k, (tick_no, ti, d, idx) in enumerate(emissions):
		if k in used_em or ti not in snset or d.get("nope"):
			continue
		bad("C03.spurious-emission", sniffer=model.trx[ti].label(), fn=d["fn"], tn=d["tn"],
			tick_fn=ticks[tick_no][2] if tick_no is not None else None)
	for k, (tick_no, ti, nums, tn, idx) in enumerate(stales):
		if k not in used_st and not any(n >= HYPER for n in nums):
			bad("C03.spurious-stale-report", numbers=sorted(nums)[:6], tn=tn)
	return viols, stats
