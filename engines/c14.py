# Composite engine for C14: hostile sessions against fake_trx (`um`), damaged capture files
# (`dump`) and — when it builds — hostile datagrams into trxcon's trx_if.c (`trxcon`).
# A seed selects the sub-engine; plans carry their engine name, so replay is unambiguous.

from sim.runner import rng_for


class C14Engine:
	name = "um+dump+trxcon"

	def __init__(self):
		from engines.um import ENGINE as um
		from engines.dump import ENGINE as dump
		self.subs = {"um": um, "dump": dump}
		self.weights = [("um", 6), ("dump", 2)]
		try:
			import os
			if os.environ.get("VERIF_C14_TRXCON", "1") != "1":
				raise ImportError("trxcon sub-engine disabled by VERIF_C14_TRXCON=0")
			from engines.trxcon import ENGINE as trxcon
			self.subs["trxcon"] = trxcon
			self.weights.append(("trxcon", 4))
		except ImportError:
			pass

	def setup(self):
		self._notes = []
		for name, e in list(self.subs.items()):
			try:
				e.setup()
			except RuntimeError as ex:
				if name != "trxcon":
					raise
				# trx_if.c does not build against the shim any more: say so, go on without it
				self._notes.append("trxcon sub-engine disabled: %s" % str(ex)[-300:])
				print("NOTE: trxcon sub-engine disabled for this run: %s" % str(ex)[-600:])
				del self.subs["trxcon"]
				self.weights = [w for w in self.weights if w[0] != "trxcon"]

	def notes(self):
		out = list(getattr(self, "_notes", []))
		um = self.subs.get("um")
		if um is not None and hasattr(um, "notes"):
			out += um.notes()
		return out

	def pick(self, seed):
		r = rng_for(seed, "c14-engine")
		names = [n for n, _w in self.weights]
		return r.choices(names, [w for _n, w in self.weights])[0]

	def generate(self, seed, prop, tier):
		name = self.pick(seed)
		plan = self.subs[name].generate(seed, "C14", tier)
		plan["engine"] = name
		return plan

	def _sub(self, plan):
		return self.subs[plan.get("engine", "um")]

	def execute(self, plan, prop, choices=None):
		return self._sub(plan).execute(plan, "C14", choices=choices)

	def simplify(self, plan):
		e = self._sub(plan)
		if hasattr(e, "simplify"):
			for p in e.simplify(plan):
				p["engine"] = plan.get("engine", "um")
				yield p

	def drop_ops(self, plan, lo, hi):
		e = self._sub(plan)
		if hasattr(e, "drop_ops"):
			return e.drop_ops(plan, lo, hi)
		p = dict(plan)
		p["ops"] = plan["ops"][:lo] + plan["ops"][hi:]
		return p


ENGINE = C14Engine()
