# Fine-schedule profile "race2": what the RECIPIENTS see while one command or burst arrival races
# one clock tick (routing: C02, metadata: C10, suppression and drop accounting: C18; the effect of
# the racing command: C05).  The C03 oracle of um_race.py (what becomes of every queued burst) runs
# on the same history; this one judges every burst that was put on the air in a tick:
#
#   * every transceiver's state, as the reference model derives it from the commands the socket
#     thread has read, exists in VERSIONS: version k is current from the moment command k is read
#     until command k+1 has been answered.  A tick that overlaps a command sees two (or more)
#     versions; each recipient may have been looked at before or after the command took effect;
#   * routing must be explained by ONE version of the sender's transmit frequency for all
#     recipients of a burst, and for each recipient by one version of its own state;
#   * metadata must lie in the windows of some combination of the versions' settings (a command
#     may set base and threshold in two steps);
#   * FAKE_DROP credits are tracked as the SET of values the orders allow; a burst suppressed when
#     no order leaves a credit, or delivered when every order leaves one, is a violation.

import copy
import itertools

from sim import refcodec as rc
from engines.um_model import UmModel, Monitor, Entry, Burst, P_NS, HYPER, RSSI_MIN, RSSI_MAX, TOA_MIN, TOA_MAX, CI_MIN, CI_MAX, _window_vs_range

A, A2, B, B2, C, D = 935000, 935400, 890000, 890400, 935800, 890800


# ------------------------------------------------------------------ plan generation ----
def build_race2_plan(rng, tier, prop=None):
	ports = [5700 + 400 * k for k in range(10)]
	rng.shuffle(ports)
	# the order of the transceivers is the order in which a burst is offered to them
	trx = [
		{"name": "BTS", "addr": "127.0.0.1", "port": ports[0], "idx": 0, "child_mgt": True},
		{"name": "MS", "addr": "127.0.0.1", "port": ports[1], "idx": 0, "child_mgt": False},
		{"name": "SNB", "addr": "127.0.0.1", "port": ports[2], "idx": 0, "child_mgt": True},
		{"name": "SNM", "addr": "127.0.0.1", "port": ports[3], "idx": 0, "child_mgt": True},
		{"name": "X", "addr": "127.0.0.1", "port": ports[4], "idx": 0, "child_mgt": True},
	]
	ops = []

	def cmd(i, text, dt=0, **kw):
		op = {"op": "cmd", "trx": i, "text": text, "dt": dt}
		op.update(kw)
		ops.append(op)

	# every property's check spends most of its runs on the state that property is about
	fam = {"C02": ["mixed", "rehop", "rehop", "stale-rx", "stale-rx", "meta", "drop"],
		"C12": ["mixed", "rehop", "rehop", "stale-rx", "stale-rx", "mute-drop", "drop"],
		"C03": ["mixed", "mixed", "rehop", "stale-rx", "meta", "mute-drop", "drop"],
		"C10": ["mixed", "meta", "meta", "meta", "meta", "stale-rx", "drop"],
		"C18": ["mixed", "mute-drop", "mute-drop", "mute-drop", "drop", "drop", "meta"],
		"C05": ["mixed", "rehop", "rehop", "drop", "drop", "meta", "mute-drop"]}.get(prop,
		["mixed", "mixed", "rehop", "stale-rx", "meta", "mute-drop", "drop"])
	family = rng.choice(fam)
	bts_tx = rng.choice([A, A2])
	ms_stale = rng.choice([A, A2])
	ms_hop = rng.choice([None, None, A, A2]) if rng.random() < 0.6 else None
	x_rx = rng.choice([A, A2])
	if family == "stale-rx":
		# the MS hops on one frequency while its RXTUNE value still names the other one, on which
		# the BTS transmits: only the X transceiver is to get the BTS's bursts
		ms_stale = bts_tx
		ms_hop = A2 if bts_tx == A else A
	elif family in ("meta", "mute-drop", "drop"):
		ms_stale = bts_tx
		ms_hop = None
		x_rx = bts_tx
	ver = {i: rng.choice([0, 1]) for i in range(5)}
	cmd(0, "RXTUNE %d" % B)
	cmd(0, "TXTUNE %d" % bts_tx)
	cmd(1, "RXTUNE %d" % ms_stale)
	cmd(1, "TXTUNE %d" % B)
	cmd(2, "RXTUNE %d" % A)
	cmd(2, "TXTUNE %d" % C)
	cmd(3, "RXTUNE %d" % B)
	cmd(3, "TXTUNE %d" % D)
	cmd(4, "RXTUNE %d" % x_rx)
	cmd(4, "TXTUNE %d" % B2)
	for i in range(5):
		if ver[i]:
			cmd(i, "SETFORMAT 1")
	def hop_list():
		# channels on both frequencies: which one the MS listens on depends on the frame number
		k = rng.choice([2, 2, 3, 4])
		rxs = [rng.choice([A, A2]) for _ in range(k)]
		if len(set(rxs)) == 1:
			rxs[rng.randrange(k)] = A2 if rxs[0] == A else A
		return "SETFH %d %d %s" % (rng.choice([0, 0, 5, 17]), rng.randrange(k), " ".join("%d %d" % (f, B) for f in rxs))

	ms_fh_cmd = None
	if family == "rehop":
		ms_fh_cmd = hop_list()
		cmd(1, ms_fh_cmd)
	elif ms_hop is not None:
		ms_fh_cmd = "SETFH %d 0 %s" % (rng.choice([0, 5, 17]), " ".join("%d %d" % (ms_hop, B) for _ in range(rng.choice([1, 2, 3]))))
		cmd(1, ms_fh_cmd)
	recips = [1, 4]
	for r in recips:
		# in the "meta" family the windows are mostly randomised ones already (threshold > 0), so
		# that a racing FAKE_* command meets code that is computing a window
		pm = 0.6 if family == "meta" else 0.3
		if rng.random() < pm:
			cmd(r, "FAKE_RSSI %d %d" % (rng.choice([-60, -75, -90]), rng.choice([3, 10] if family == "meta" else [0, 3, 10])))
		if rng.random() < pm:
			cmd(r, "FAKE_TOA %d %d" % (rng.choice([0, 100, -300]), rng.choice([20, 60] if family == "meta" else [0, 20])))
		if family == "meta" and rng.random() < 0.5:
			cmd(r, "FAKE_CI %d %d" % (rng.choice([90, 60]), rng.choice([5, 15])))
		if rng.random() < 0.35:
			cmd(r, "FAKE_DROP %d" % rng.choice([1, 1, 2, 3]))
		if rng.random() < 0.15:
			cmd(r, "RFMUTE 1")
	if rng.random() < 0.3:
		cmd(0, "SETTA %d" % rng.choice([1, 3, 10]))
	if rng.random() < 0.3:
		cmd(0, "SETPOWER %d" % rng.choice([2, 10, 20]))
	for i in (2, 3, 4, 0, 1):
		cmd(i, "POWERON", dt=rng.choice([0, 1000]))
	ops.append({"op": "idle", "dt": rng.randint(2, 5) * P_NS})
	state = {"bts_tx": bts_tx, "ms_rx": ms_stale, "x_rx": x_rx, "ms_hop": ms_hop, "muted": set(), "fh": ms_fh_cmd}

	def burst(s, adv, dt=0, kind=None, **kw):
		k = kind or rng.choice(["NB", "NB", "RAND", "SB", "AB", "EDGE"])
		op = {"op": "burst", "trx": s, "adv": adv, "tn": rng.randrange(8), "pwr": rng.choice([0, 10, 10]), "kind": k,
			"bseed": rng.randrange(1 << 30), "ver": ver[s], "dt": dt}
		if k in ("NB", "SB", "AB"):
			op["tsc"] = rng.randrange(8) if k == "NB" else (rng.randrange(4) if k == "SB" else rng.randrange(3))
		op.update(kw)
		ops.append(op)

	nraces = rng.choice([3, 4, 5, 6])
	for _ in range(nraces):
		if family == "mute-drop":
			t = rng.choice(recips)
			cmd(t, "RFMUTE 1")
			cmd(t, "FAKE_DROP %d" % rng.choice([1, 2, 3]))
			state["muted"].add(t)
		elif family == "drop":
			t = rng.choice(recips)
			cmd(t, "FAKE_DROP %d" % rng.choice([1, 1, 2]))
		# bursts due in the racing tick and in the frames after it (the latter show what the
		# racing command left behind: drop credits, windows, tuning)
		for k in range(rng.choice([1, 2, 3]) if family in ("mixed", "rehop") else 1):
			burst(0, 1, dt=rng.choice([0, 0, 1000]))
		if rng.random() < (0.4 if family == "mixed" else 0.1):
			burst(1, 1)
		for k in range(rng.choice([2, 3, 5])):
			burst(0, 2 + k)
		r = rng.random()
		if family == "stale-rx" and r < 0.7:
			op = {"op": "cmd", "trx": 1, "text": "POWEROFF", "back": True}
		elif family == "rehop" and r < 0.85:
			# the hopping MS is given another hopping configuration (or is powered off) mid-tick
			if r < 0.7:
				state["fh"] = hop_list()
				op = {"op": "cmd", "trx": 1, "text": state["fh"]}
			else:
				op = {"op": "cmd", "trx": 1, "text": "POWEROFF", "back": True}
		elif family == "meta" and r < 0.8:
			t = rng.choice(recips + [0])
			if t == 0:
				op = {"op": "cmd", "trx": 0, "text": rng.choice(["SETTA %d" % rng.choice([0, 2, 7]), "SETPOWER %d" % rng.choice([0, 5, 15])])}
			else:
				op = {"op": "cmd", "trx": t, "text": rng.choice([
					"FAKE_RSSI %d %d" % (rng.choice([-75, -90, -100]), rng.choice([0, 3])),
					"FAKE_RSSI %d %d" % (rng.choice([-75, -90, -100]), rng.choice([0, 3])),
					"FAKE_TOA %d %d" % (rng.choice([100, -300, 500]), rng.choice([0, 20])),
					"FAKE_CI %d %d" % (rng.choice([120, 30]), rng.choice([0, 15]))])}
		elif family == "mute-drop" and r < 0.8:
			state["muted"].discard(t)
			op = {"op": "cmd", "trx": t, "text": "RFMUTE 0"}
		elif family == "drop" and r < 0.8:
			op = {"op": "cmd", "trx": t, "text": "FAKE_DROP %d" % rng.choice([0, 2, 3, 5])}
		elif r < 0.12:
			state["bts_tx"] = A2 if state["bts_tx"] == A else A
			op = {"op": "cmd", "trx": 0, "text": "TXTUNE %d" % state["bts_tx"]}
		elif r < 0.24:
			t = rng.choice(recips)
			key = "ms_rx" if t == 1 else "x_rx"
			state[key] = A2 if state[key] == A else A
			op = {"op": "cmd", "trx": t, "text": "RXTUNE %d" % state[key]}
		elif r < 0.36:
			t = rng.choice(recips)
			op = {"op": "cmd", "trx": t, "text": "POWEROFF", "back": True}
		elif r < 0.42:
			f = rng.choice([A, A2])
			state["ms_hop"] = f
			state["fh"] = "SETFH %d 0 %s" % (rng.choice([0, 9]), " ".join("%d %d" % (f, B) for _ in range(rng.choice([1, 2]))))
			op = {"op": "cmd", "trx": 1, "text": state["fh"]}
		elif r < 0.54:
			t = rng.choice(recips)
			op = {"op": "cmd", "trx": t, "text": rng.choice([
				"FAKE_RSSI %d %d" % (rng.choice([-60, -75, -90, -100]), rng.choice([0, 3, 10])),
				"FAKE_TOA %d %d" % (rng.choice([0, 100, -300, 500]), rng.choice([0, 20])),
				"FAKE_CI %d %d" % (rng.choice([90, 120, 30]), rng.choice([0, 15]))])}
		elif r < 0.62:
			op = {"op": "cmd", "trx": 0, "text": rng.choice(["SETTA %d" % rng.choice([0, 2, 7]), "SETPOWER %d" % rng.choice([0, 5, 15])])}
		elif r < 0.78:
			t = rng.choice(recips)
			n = rng.choice([0, 0, 1, 2, 5])
			op = {"op": "cmd", "trx": t, "text": "FAKE_DROP %d" % n if rng.random() < 0.8 else "FAKE_DROP %d %d" % (n, rng.choice([1, 2]))}
		elif r < 0.86:
			t = rng.choice(recips + [0])
			v = 0 if t in state["muted"] else 1
			(state["muted"].discard if v == 0 else state["muted"].add)(t)
			op = {"op": "cmd", "trx": t, "text": "RFMUTE %d" % v}
		elif r < 0.96:
			t = rng.choice(recips)
			ver_new = rng.choice([0, 1])
			op = {"op": "cmd", "trx": t, "text": "SETFORMAT %d" % ver_new}
		else:
			# a burst for the frame of the racing tick itself, arriving while that tick runs
			op = {"op": "burst", "trx": 0, "adv": rng.choice([0, 1, 1]), "tn": rng.randrange(8), "pwr": 0, "kind": "NB",
				"tsc": rng.randrange(1, 8), "bseed": rng.randrange(1 << 30), "ver": ver[0]}
		op["dt"] = rng.choice([1000, P_NS // 2])
		op["sync"] = "tick"
		back = op.pop("back", False)
		ops.append(op)
		if back:
			t = op["trx"]
			if t == 1 and state["fh"] is not None:
				ops.append({"op": "cmd", "trx": 1, "dt": 2 * P_NS, "text": state["fh"]})
			ops.append({"op": "cmd", "trx": t, "text": "POWERON", "dt": rng.choice([P_NS, 2 * P_NS])})
		ops.append({"op": "idle", "dt": rng.randint(6, 9) * P_NS})
	ops.append({"op": "idle", "dt": 4 * P_NS})
	start = rng.choice([0, 0, rng.randrange(HYPER), HYPER - 1 - rng.randrange(20)])
	cfg = {"trx": trx, "family": family, "clck_start": start, "ind_period": rng.choice([102, 1, 13]), "bind_addr": "0.0.0.0",
		"mode": "fine", "race2": True, "fine": {"strategy": rng.choice(["sweep", "sweep", "sweep", "sweep", "pct2", "pct3", "walk"]),
			"k": rng.randrange(1 << 20), "p": rng.choice([0.02, 0.05, 0.2]), "first": rng.randrange(2)},
		"sniffers": {"0": 2, "1": 3}}
	return {"engine": "um", "seed": None, "config": cfg, "ops": ops}


# ------------------------------------------------------------------ the oracle ---------
OWN = {
	"race2.routing": ["C02", "C12", "C05"],
	"race2.delivered-twice": ["C02", "C03"],
	"race2.bits": ["C10"],
	"race2.metadata": ["C10", "C05"],
	"race2.suppression": ["C18", "C05", "C03"],   # a burst taken from the queue that reaches nobody has vanished
	"race2.drop-count": ["C18", "C05"],
}


class _Quiet(Monitor):
	"""The lock-step monitor's per-datagram checks, collecting instead of reporting."""

	def __init__(self, model):
		self.m = model
		self.viols = []

	def bad(self, clause, **detail):
		self.viols.append((clause, detail))


def _mix(objs, fields):
	"""Copies of objs[0] with every combination of the given fields' values found among objs
	(list-valued fields component by component)."""
	vals = []
	for f in fields:
		v0 = getattr(objs[0], f)
		if isinstance(v0, list):
			comps = [sorted({getattr(o, f)[k] for o in objs}) for k in range(len(v0))]
			vals.append([list(c) for c in itertools.product(*comps)])
		else:
			vals.append(sorted({getattr(o, f) for o in objs}, key=repr))
	out = []
	for combo in itertools.islice(itertools.product(*vals), 96):
		o = copy.copy(objs[0])
		for f, v in zip(fields, combo):
			setattr(o, f, v)
		out.append(o)
	return out


def check_race2(history, cfg):
	viols = []

	def bad(clause, **detail):
		if len(viols) < 6:
			viols.append({"clause": clause, "detail": detail, "owners": list(OWN[clause])})

	model = UmModel(cfg)
	stats = {"r2-bursts-on-air": 0, "r2-racing-ticks": 0, "r2-recipient-checks": 0, "r2-two-version-checks": 0,
		"r2-drop-accounted": 0, "r2-ambiguous": 0}
	n = len(model.trx)
	data_port = {T.data_port: T.i for T in model.trx}
	# ---- pass 1: versions of the model state, ticks, accepted bursts, deliveries -----------
	versions = [(0, copy.deepcopy(model.trx))]   # (history index from which possibly current, trx list)
	ver_end = []                                  # history index until which version k is possibly current
	cmds = []                                     # (c0, c1, trx index, verb, ints) per command that changed the state
	open_cmd = None
	ticks = []
	cur_tick = None
	accepted = []                                 # (idx, S index, Burst)
	deliveries = []                               # (tick_no, R index, decoded, idx)
	for idx, (t, kind, kw) in enumerate(history):
		if kind in ("recv", "select-enter") and open_cmd is not None:
			ver_end.append(idx)
			cmds[-1][1] = idx
			open_cmd = None
		if kind == "recv":
			T, iface = model.port_map.get(kw["port"], (None, None))
			if T is None:
				continue
			if iface == "data":
				if model.on_data(T, kw["data"]) == "accepted":
					d = rc.dec_tx(kw["data"])
					accepted.append((idx, T.i, Burst(d, len(accepted))))
			elif iface == "ctrl":
				exp = model.on_ctrl(T, kw["data"], t)
				for x in model.trx:
					x.queue = []
					x.maybe = []
				versions.append((idx, copy.deepcopy(model.trx)))
				verb, ints = None, []
				try:
					parts = kw["data"].rstrip(b"\0").decode().split()
					verb = parts[1]
					ints = [int(x) for x in parts[2:]]
				except Exception:
					pass
				cmds.append([idx, None, T.i, verb, ints, exp.get("status") if exp else None])
				open_cmd = idx
		elif kind == "tick-begin":
			cur_tick = len(ticks)
			ticks.append([idx, None, kw["fn"]])
		elif kind == "tick-end":
			if cur_tick is not None:
				ticks[cur_tick][1] = idx
			cur_tick = None
		elif kind == "tx":
			ri = data_port.get(kw["sport"])
			if ri is not None:
				try:
					d = rc.dec_rx(kw["data"])
				except Exception:
					continue   # malformed datagrams are the C03 oracle's business
				deliveries.append((cur_tick, ri, d, idx))
	end = len(history)
	while len(ver_end) < len(versions):
		ver_end.append(end)
	for c in cmds:
		if c[1] is None:
			c[1] = end
	for tk in ticks:
		if tk[1] is None:
			tk[1] = end
	# version k is possibly current in [versions[k][0], ver_end[k]]
	# (ver_end[k] = the moment command k+1 has been fully processed)

	def versions_of_tick(j):
		tb, te, _fn = ticks[j]
		return [k for k in range(len(versions)) if versions[k][0] <= te and ver_end[k] >= tb]

	def freq(T, which, fn):
		return model.freq(T, which, fn)

	# ---- pass 2: per tick, the bursts put on the air and what each transceiver got ---------
	per_tick = {}
	for tick_no, ri, d, idx in deliveries:
		if tick_no is not None:
			per_tick.setdefault(tick_no, []).append((ri, d, idx))
	acc_by_key = {}
	for idx, si, b in accepted:
		acc_by_key.setdefault((b.fn, b.tn), []).append((idx, si, b))
	drop_state = {T.i: [{T.drop_n}, {T.drop_p}] for T in versions[0][1]}   # R -> [possible credits, possible periods]
	drop_cmds = [c for c in cmds if c[3] == "FAKE_DROP" and c[5] == 0 and c[4] and c[4][0] >= 0 and (len(c[4]) < 2 or c[4][1] > 0)]
	applied = set()
	quiet = _Quiet(model)
	for j in range(len(ticks)):
		tb, te, fn = ticks[j]
		V = versions_of_tick(j)
		racing = len(V) > 1
		if racing:
			stats["r2-racing-ticks"] += 1
		# FAKE_DROP commands completed before this tick began: exact; overlapping ones: either way
		overlap = {}
		for ci, (c0, c1, ti, verb, ints, status) in enumerate(drop_cmds):
			if ci in applied:
				continue
			nn, pp = ints[0], (ints[1] if len(ints) > 1 else 1)
			if c1 < tb:
				drop_state[ti] = [{nn}, {pp}]
				applied.add(ci)
			elif c0 <= te:
				overlap.setdefault(ti, []).append((nn, pp))
				applied.add(ci)
		got = per_tick.get(j, [])
		groups = {}     # burst seq -> {"b": Burst, "S": si, "at": {ri: [decoded...]}}
		pre_unknown = {}
		for ri, d, idx in got:
			cands = [(ai, si, b) for ai, si, b in acc_by_key.get((d["fn"], d["tn"]), []) if ai < idx and si != ri]
			if not cands:
				continue   # not a forwarded burst of this run (the C03 oracle reports spurious emissions)
			pick = None
			if d.get("nope"):
				pick = cands[0] if len(cands) == 1 else None
			else:
				body = d["body"][:-2] if d["ver"] == 0 else d["body"]
				for c in cands:
					if bytes(body) == bytes(254 if x else 0 for x in c[2].bits):
						pick = c
						break
				if pick is None and len(cands) == 1:
					bad("race2.bits", recipient=model.trx[ri].label(), fn=d["fn"], tn=d["tn"], got_len=len(body), want_len=len(cands[0][2].bits))
					continue
			if pick is None:
				stats["r2-ambiguous"] += 1
				pre_unknown[ri] = pre_unknown.get(ri, 0) + 1
				continue
			g = groups.setdefault(pick[2].seq, {"b": pick[2], "S": pick[1], "at": {}, "idx": []})
			g["at"].setdefault(ri, []).append(d)
			g["idx"].append(idx)
		counts = {}   # R -> [suppressed, delivered, suppressed (period unsure), delivered (period unsure)]
		unknown = dict(pre_unknown)  # R -> bursts that may have been suppressed at R without a clear trace
		seen = {g["b"].seq for g in groups.values()}
		for ai, si, b in accepted:
			if b.fn == fn and ai < te and b.seq not in seen:
				# due in this tick but nothing of it was seen anywhere: if it was put on the air, a
				# version-0 recipient with a drop credit suppressed it silently
				for ri in range(n):
					if ri != si and any(versions[k][1][ri].ver == 0 for k in V):
						unknown[ri] = unknown.get(ri, 0) + 1
		tick_V = V
		all_tx = sorted(idx for _ri, _d, idx in got)
		for seq, g in sorted(groups.items()):
			b, si = g["b"], g["S"]
			if b.fn != fn:
				continue   # emitted in the tick of another frame: the C03 oracle's business
			# the clock thread forwards one burst after the other: what it read for this burst it
			# read after the last datagram of the previous one and before the first datagram that
			# follows this burst's last one, so only the versions of that stretch count
			lo_i = max([i for i in all_tx if i < min(g["idx"])] or [tb])
			hi_i = min([i for i in all_tx if i > max(g["idx"])] or [te])
			V = [k for k in tick_V if versions[k][0] <= hi_i and ver_end[k] >= lo_i] or tick_V
			if len(acc_by_key.get((b.fn, b.tn), [])) > 1:
				stats["r2-ambiguous"] += 1   # two bursts for one slot: which one a NOPE stands for is open
				for ri in range(n):
					unknown[ri] = unknown.get(ri, 0) + 1
				continue
			stats["r2-bursts-on-air"] += 1
			twice = False
			for ri, ds in g["at"].items():
				if len(ds) > 1:
					bad("race2.delivered-twice", recipient=model.trx[ri].label(), fn=b.fn, tn=b.tn, copies=len(ds))
					twice = True
			if twice:
				continue
			S_vers = [versions[k][1][si] for k in V]
			S_meta = _mix(S_vers, ["nominal", "att", "ta"])
			S_muted = {s.muted for s in S_vers}
			verdict = None
			for vs in V:
				f = freq(versions[vs][1][si], "tx", fn)
				fail = None
				for ri in range(n):
					if ri == si:
						continue
					obs = g["at"].get(ri, [])
					o = obs[0] if obs else None
					R_vers = [versions[k][1][ri] for k in V]
					P = set(drop_state[ri][0]) | {nn for nn, _pp in overlap.get(ri, [])}
					ok = False
					why = None
					why_in = None
					for Rv in R_vers:
						rf = freq(Rv, "rx", fn)
						if f is None or rf is None:
							ok = True
							break
						if not (Rv.running and rf == f):
							if o is None:
								ok = True
								break
							why = "delivered to a transceiver that is %s in this order" % ("not running" if not Rv.running else "tuned elsewhere")
							continue
						r = explained(quiet, b, o, Rv, R_vers, S_meta, S_muted, P)
						if r is True:
							ok = True
							break
						why_in = r
					stats["r2-recipient-checks"] += 1
					if racing:
						stats["r2-two-version-checks"] += 1
					if not ok:
						fail = (ri, why_in or why)
						break
				if fail is None:
					verdict = None
					break
				verdict = verdict or fail
			if verdict is not None:
				ri, why = verdict
				clause = "race2.routing"
				if why and why.startswith("meta"):
					clause = "race2.metadata"
				elif why and why.startswith("suppress"):
					clause = "race2.suppression"
				bad(clause, sender=model.trx[si].label(), recipient=model.trx[ri].label(), fn=b.fn, tn=b.tn, why=why,
					orders=len(V), got=("nothing" if not g["at"].get(ri) else ("NOPE" if g["at"][ri][0].get("nope") else "burst")))
				continue
			# drop accounting: was the burst a candidate for suppression at R — in every order, in
			# some order, in none?
			if len(b.bits) not in (rc.GMSK_LEN, rc.EDGE_LEN):
				continue
			f_all = {freq(versions[k][1][si], "tx", fn) for k in V}
			for ri in range(n):
				if ri == si:
					continue
				R_vers = [versions[k][1][ri] for k in V]
				routed = [Rv.running and (None in f_all or freq(Rv, "rx", fn) is None or freq(Rv, "rx", fn) in f_all) for Rv in R_vers]
				if not any(routed):
					continue
				certain = all(Rv.running and len(f_all) == 1 and None not in f_all and freq(Rv, "rx", fn) in f_all for Rv in R_vers)
				mute_possible = any(Rv.muted for Rv in R_vers) or True in S_muted
				tainted = any(Rv.taint for Rv in R_vers)
				R_mix = _mix(R_vers, ["fake_rssi", "rssi", "toa", "ci"]) if len(R_vers) > 1 else R_vers
				invalid_possible = any(_invalid(r, s, b) != "no" for r in R_mix for s in S_meta)
				obs = g["at"].get(ri, [])
				kind_o = "none" if not obs else ("nope" if obs[0].get("nope") else "burst")
				pers = set(drop_state[ri][1]) | {pp for _nn, pp in overlap.get(ri, [])}
				hits = {fn % p == 0 for p in pers}
				c = counts.setdefault(ri, [0, 0, 0, 0])
				if kind_o == "burst":
					# it reached R with its bits: a candidate that was not suppressed (if the period hits)
					if tainted:
						continue
					if hits == {True}:
						c[1] += 1
					elif hits != {False}:
						c[3] += 1
				elif mute_possible or invalid_possible or tainted or not certain:
					# suppressed for another reason, not routed at all, or dropped: any of them
					if hits != {False}:
						unknown[ri] = unknown.get(ri, 0) + 1
				else:
					if hits == {True}:
						c[0] += 1
					elif hits == {False}:
						bad("race2.suppression", recipient=model.trx[ri].label(), fn=b.fn, tn=b.tn,
							why="suppressed although the frame number is no multiple of the drop period and nobody is muted")
					else:
						c[2] += 1
		# the credits after this tick
		for ri in range(n):
			c = counts.get(ri)
			P, pers = drop_state[ri]
			m = unknown.get(ri, 0)
			if m and ri not in overlap:
				c = c or [0, 0, 0, 0]
			if ri in overlap:
				# the command took effect before, between or after this tick's bursts: no verdict on
				# this tick's bursts, every resulting credit is possible afterwards
				total = (sum(c) if c else 0) + m
				if c and c[1] > 0:
					# a certain candidate came through with its bits: whichever setting it met, old
					# or new, that setting's credit must have been used up by then
					k_supp = c[0] + c[2] + m
					if not (any(x <= k_supp for x in P) or any(nn <= k_supp for nn, _pp in overlap[ri])):
						bad("race2.drop-count", recipient=model.trx[ri].label(), tick_fn=fn, suppressed=c[0] + c[2], delivered=c[1] + c[3],
							possible_credits=sorted(P)[:6], racing_fake_drop=[nn for nn, _pp in overlap[ri]])
				cand = set()
				for nn, _pp in overlap[ri]:
					for k in range(total + 1):
						cand.add(max(0, nn - k))
				drop_state[ri] = [cand, {overlap[ri][-1][1]}]
				stats["r2-drop-accounted"] += 1
				continue
			if c:
				newP = _apply(P, *c, m)
				stats["r2-drop-accounted"] += 1
				if newP is None:
					bad("race2.drop-count", recipient=model.trx[ri].label(), tick_fn=fn, suppressed=c[0] + c[2], delivered=c[1] + c[3],
						possible_credits=sorted(P)[:6])
					newP = {0}
				drop_state[ri] = [newP, pers]
	return viols, stats


def _apply(P, supp, deliv, e_supp, e_deliv, m=0):
	"""Credits left after a tick in which `supp` candidates were suppressed and `deliv` delivered
	(e_*: bursts whose being a candidate depends on which drop period applies); None if no
	possible credit explains the tick.  With x credits and c candidates exactly min(x, c) are
	suppressed — which ones is open, the number is not."""
	out = set()
	for u in range(m + 1):   # u of the m untraceable bursts were candidates and were suppressed
		k = supp + e_supp + u
		for x in P:
			if k > x:
				continue
			for d in range(e_deliv + (m - u) + 1):
				if deliv + d == 0 or k == x:
					out.add(x - k)
					break
	return out or None


def _invalid(R, S, b):
	rel = []
	if R.fake_rssi:
		rel.append(_window_vs_range(R.rssi[0], R.rssi[1], RSSI_MIN, RSSI_MAX))
	else:
		v = S.nominal - S.att - b.pwr - 110
		rel.append("no" if RSSI_MIN <= v <= RSSI_MAX else "must")
	rel.append(_window_vs_range(R.toa[0], R.toa[1], TOA_MIN, TOA_MAX, -256 * S.ta))
	if R.ver == 1:
		rel.append(_window_vs_range(R.ci[0], R.ci[1], CI_MIN, CI_MAX))
	if R.taint & {"toa", "rssi", "ci"}:
		return "may"
	return "must" if "must" in rel else ("may" if "may" in rel else "no")


def explained(quiet, b, o, Rv, R_vers, S_meta, S_muted, P):
	"""Is observation `o` (None, a NOPE or a burst) of burst b at a recipient that is running and
	tuned in version Rv explained?  True, or a reason starting with 'meta' / 'suppress'."""
	idle = len(b.bits) == 0
	if len(R_vers) > 1:
		R_meta = _mix(R_vers, ["fake_rssi", "rssi", "toa", "ci"])
		for r in R_meta:
			r.ver = Rv.ver
			r.taint = Rv.taint
			r.muted = Rv.muted
	else:
		R_meta = [Rv]
	inv = {_invalid(r, s, b) for r in R_meta for s in S_meta}
	if len(b.bits) not in (0, rc.GMSK_LEN, rc.EDGE_LEN):
		inv = {"must"}
	muted_possible = Rv.muted or (True in S_muted) or idle
	muted_certain = Rv.muted or S_muted == {True} or idle
	drop_possible = any(x > 0 for x in P) or "drop" in Rv.taint
	if o is None:
		if inv & {"must", "may"}:
			return True
		if muted_possible or drop_possible:
			if Rv.ver == 0:
				return True
			return "suppress: suppressed without the NOPE indication a version-1 link gets"
		return "suppress: nothing arrived although the recipient is running, tuned and nothing suppresses the burst"
	if o.get("nope"):
		if not (muted_possible or drop_possible):
			return "suppress: NOPE indication although neither side is muted and no drop credit is left in any order"
		if o["ver"] != 1 or Rv.ver != 1:
			return "suppress: NOPE indication on a version-0 link"
		if o["body"] or o["rssi"] != -110 or o["toa256"] != 0 or o["ci"] != -30:
			return "suppress: NOPE indication with burst bits or without the noise-level values"
		return True
	if inv == {"must"}:
		return "meta: sent although the simulated metadata is outside the protocol range"
	if muted_certain:
		return "suppress: delivered with its bits although muted"
	# header version, legacy padding, modulation and training sequence: as in the lock-step monitor
	r0 = copy.copy(Rv)
	r0.taint = set(Rv.taint) | {"rssi", "toa", "ci"}
	e = Entry(S_meta[0], r0, b)
	e.invalid = "no"
	quiet.viols = []
	quiet._check_burst(r0, e, o, None)
	if quiet.viols:
		return "meta: %s %s" % (quiet.viols[0][0], str(quiet.viols[0][1])[:160])
	# RSSI, ToA256, C/I: a command may set base and threshold in two steps and the code may read them
	# in two steps, so anything between the lowest and the highest value of the settings involved
	# is accepted while a command is being processed; with one version this is the exact window
	if "rssi" not in Rv.taint:
		exact = {s.nominal - s.att - b.pwr - 110 for s in S_meta}
		# a FAKE_RSSI window counts only with base/threshold values of versions in which the fake
		# RSSI is enabled (the code sets the values first and the flag last)
		fake_vers = [r for r in R_vers if r.fake_rssi]
		wins = [(r.rssi[0] - abs(r.rssi[1]), r.rssi[0] + abs(r.rssi[1])) for r in (_mix(fake_vers, ["rssi"]) if fake_vers else [])]
		if not wins:
			if o["rssi"] not in exact:
				return "meta: meta.rssi got %d, want %s (nominal - attenuation - burst attenuation - path loss)" % (o["rssi"], sorted(exact))
		elif o["rssi"] in exact and any(not r.fake_rssi for r in R_vers):
			pass
		else:
			vals = [w[0] for w in wins] + [w[1] for w in wins]
			if not (min(vals) <= o["rssi"] <= max(vals)):
				return "meta: meta.rssi got %d, outside %d..%d%s" % (o["rssi"], min(vals), max(vals),
					(" and not %s" % sorted(exact)) if any(not r.fake_rssi for r in R_vers) else "")
	if "toa" not in Rv.taint:
		los = [r.toa[0] - abs(r.toa[1]) - 256 * s.ta for r in R_meta for s in S_meta]
		his = [r.toa[0] + abs(r.toa[1]) - 256 * s.ta for r in R_meta for s in S_meta]
		if not (min(los) <= o["toa256"] <= max(his)):
			return "meta: meta.toa got %d, outside %d..%d" % (o["toa256"], min(los), max(his))
	if o["ver"] == 1 and "ci" not in Rv.taint:
		los = [r.ci[0] - abs(r.ci[1]) for r in R_meta]
		his = [r.ci[0] + abs(r.ci[1]) for r in R_meta]
		if not (min(los) <= o["ci"] <= max(his)):
			return "meta: meta.ci got %d, outside %d..%d" % (o["ci"], min(los), max(his))
	return True
