# Engine `um`: the real fake_trx.Application (all transceivers, both threads) on the
# simulated network / clock, driven by seeded L1 stub actors.  Serves C02 C03 C05 C10 C12
# C14 C18 (DESIGN.md §4, §5, Appendix A).

import json
import sys

from sim.kernel import Sim, Policy, HarnessError
from sim.seams import (ThreadingSeam, TimeSeam, FaultScript, RandomSeam, SimSocketModule,
	SimNet, SelectSeam)
from sim.runner import Result, rng_for, digest_of
from sim import toolkit
from sim import refcodec as rc
from engines.um_model import Monitor, KNOWN_VERBS, P_NS, HYPER
from engines import um_race
from engines import um_race2
from engines import um_trxcon

FREQ_POOLS = [
	[890000, 890200, 935000, 935200],
	[890000, 935000, 1800000],
	[890000, 890200, 890400, 935000, 935200],
	[1747600, 1842600, 1747800, 1842800],
]


class _SignalStub:
	SIGINT = 2
	SIGTERM = 15

	@staticmethod
	def signal(*a):
		return None


# ======================================================================================
#  plan generation
# ======================================================================================
PROFILES = {
	# weights of operation categories per property profile
	#            tune power format meta drop misc burst idle
	"C02": dict(tune=18, power=6, fmt=3, meta=2, drop=2, misc=2, burst=50, idle=6, restart=4),
	"C03": dict(tune=2, power=10, fmt=6, meta=1, drop=1, misc=1, burst=60, idle=8, restart=3),
	"C05": dict(tune=12, power=10, fmt=8, meta=14, drop=8, misc=22, burst=14, idle=4, restart=2),
	"C10": dict(tune=3, power=3, fmt=6, meta=26, drop=2, misc=2, burst=50, idle=4, restart=2),
	"C12": dict(tune=10, power=30, fmt=2, meta=1, drop=1, misc=3, burst=30, idle=10, restart=6),
	"C18": dict(tune=2, power=3, fmt=6, meta=2, drop=26, misc=1, burst=54, idle=4, restart=2),
	"C14": dict(tune=6, power=6, fmt=4, meta=6, drop=4, misc=6, burst=34, idle=4, hostile=30, restart=2),
}


class Gen:
	def __init__(self, seed, prop, tier):
		self.rng = rng_for(seed, "plan")
		self.prop = prop if prop in PROFILES else "C02"
		self.tier = tier
		self.ops = []

	def build(self):
		rng = self.rng
		prop = self.prop
		thorough = self.tier == "thorough"
		# ---- topology
		ntrx_extra = rng.choice([0, 0, 1, 2, 3, 4]) if prop in ("C02", "C12") else rng.choice([0, 0, 0, 1, 2])
		bases = rng.sample(range(3), 3) + list(range(3, 8))
		ports = [5700 + 400 * k for k in range(12)]
		rng.shuffle(ports)
		addrs = ["127.0.0.1", "127.0.0.1", "127.0.0.2", "10.1.2.3"]
		trx = [
			{"name": "BTS", "addr": rng.choice(addrs), "port": ports[0], "idx": 0, "child_mgt": True},
			{"name": "MS", "addr": rng.choice(addrs), "port": ports[1], "idx": 0, "child_mgt": False},
		]
		parents = [0, 1]
		nextport = 2
		child_count = {0: 0, 1: 0}
		for _ in range(ntrx_extra):
			if rng.random() < 0.6 and len(trx) < 6:
				p = rng.choice(parents)
				child_count[p] = child_count.get(p, 0) + 1
				trx.append({"name": rng.choice([None, "C%d" % len(trx)]), "addr": trx[p]["addr"],
					"port": trx[p]["port"], "idx": child_count[p], "child_mgt": True})
			else:
				trx.append({"name": rng.choice([None, "X%d" % len(trx)]), "addr": rng.choice(addrs),
					"port": ports[nextport], "idx": 0, "child_mgt": True})
				parents.append(len(trx) - 1)
				child_count[len(trx) - 1] = 0
				nextport += 1
		self.trx = trx
		n = len(trx)
		# ---- clock
		ck = rng.random()
		if ck < 0.45:
			start = 0
		elif ck < 0.7:
			start = rng.randrange(HYPER)
		else:
			start = HYPER - 1 - rng.randrange(0, 60)
		period = 102 if rng.random() < 0.6 else rng.choice([1, 2, 13, 51, 204, rng.randint(1, 204)])
		self.pool = rng.choice(FREQ_POOLS)
		self.netfaults = {k: (rng.random() < 0.35) for k in ("delay", "dup", "loss")}
		if prop in ("C05",):
			self.netfaults["loss"] = False
		# intended state (only used to make plans interesting; the oracle has its own model)
		self.st = [{"on": False, "rx": None, "tx": None, "ver": 0, "fh": False} for _ in trx]
		self.max_adv = rng.choice([3, 6, 20])
		# ---- set-up phase
		if rng.random() < 0.9:
			a, b = rng.sample(self.pool, 2)
			for i in range(n):
				role = i % 2 if rng.random() < 0.8 else rng.randrange(2)
				rx, tx = (b, a) if role == 0 else (a, b)
				if rng.random() < 0.15:
					rx = rng.choice(self.pool)
				if rng.random() < 0.9:
					self.cmd(i, "RXTUNE %d" % rx)
					self.cmd(i, "TXTUNE %d" % tx)
				if rng.random() < 0.5:
					self.cmd(i, "SETFORMAT %d" % rng.choice([0, 1, 1]))
			order = list(range(n))
			rng.shuffle(order)
			for i in order:
				if rng.random() < 0.85:
					self.cmd(i, "POWERON")
		# ---- main phase
		w = PROFILES[prop]
		cats = list(w)
		weights = [w[c] for c in cats]
		nops = rng.choice([10, 25, 50, 90] + ([200, 350] if thorough else [120]))
		for _ in range(nops):
			c = rng.choices(cats, weights)[0]
			getattr(self, "op_" + c)()
		if prop in ("C02", "C12") and rng.random() < 0.04:
			self.op_period()
		# let every queued burst reach its frame, fault-free
		self.ops.append({"op": "idle", "dt": (self.max_adv + 3) * P_NS})
		cfg = {"trx": trx, "clck_start": start, "ind_period": period, "bind_addr": rng.choice(["0.0.0.0", "0.0.0.0", "127.0.0.1", "10.9.8.7"]), "mode": "coarse"}
		if rng.random() < 0.1:
			# a slow machine: for a stretch of ticks the frame handler takes longer than one frame
			# period, so the clock generator keeps overrunning while commands go on arriving
			total = sum(max(0, int(o.get("dt", 0))) for o in self.ops) // P_NS
			cfg["slow"] = {"from": rng.randrange(0, max(1, total)), "count": rng.choice([3, 8, 20, 60]),
				"dur": rng.choice([P_NS + 1000, 6_000_000, 9_000_000, 14_000_000])}
		return {"engine": "um", "seed": None, "config": cfg, "ops": self.ops}

	# ---- helpers
	def dt(self):
		r = self.rng.random()
		if r < 0.25:
			return 0
		if r < 0.6:
			return self.rng.randrange(1, P_NS)
		if r < 0.95:
			return self.rng.randrange(P_NS, 3 * P_NS)
		return self.rng.randrange(3 * P_NS, 30 * P_NS)

	def fault(self, op):
		rng = self.rng
		if self.netfaults["delay"] and rng.random() < 0.2:
			op["delay"] = rng.randrange(1, 6 * P_NS)
		if self.netfaults["dup"] and rng.random() < 0.1:
			op["dup"] = rng.choice([1, 1, 2])
			op["dup_delay"] = rng.choice([0, rng.randrange(1, 3 * P_NS)])
		if self.netfaults["loss"] and rng.random() < 0.08:
			op["lost"] = True
		return op

	def cmd(self, i, text, **kw):
		op = {"op": "cmd", "trx": i, "text": text, "dt": self.dt()}
		op.update(kw)
		self.ops.append(self.fault(op))
		# track intent
		parts = text.split(" ")
		st = self.st[i]
		try:
			if parts[0] == "POWERON" and len(parts) == 1:
				st["on"] = True
			elif parts[0] == "POWEROFF" and len(parts) == 1:
				st["on"] = False
				st["fh"] = False
			elif parts[0] == "SETFORMAT" and len(parts) == 2 and parts[1] in ("0", "1"):
				st["ver"] = int(parts[1])
		except Exception:
			pass

	def pick_trx(self):
		return self.rng.randrange(len(self.trx))

	def num(self, lo, hi, edges=()):
		rng = self.rng
		r = rng.random()
		if edges and r < 0.4:
			return rng.choice(list(edges))
		return rng.randint(lo, hi)

	# ---- operation categories
	def op_tune(self):
		rng = self.rng
		i = self.pick_trx()
		r = rng.random()
		if r < 0.35:
			self.cmd(i, "RXTUNE %d" % rng.choice(self.pool))
		elif r < 0.7:
			self.cmd(i, "TXTUNE %d" % rng.choice(self.pool))
		else:
			nch = rng.choice([1, 2, 3, 3, 4, 5, 6, 7, 8]) if rng.random() < 0.8 else rng.randint(9, 64)
			hsn = rng.choice([0, 0, rng.randint(1, 63), rng.randint(1, 63)])
			if self.prop == "C05" and rng.random() < 0.06:
				hsn = rng.choice([64, 65, 127, 255, -1, 1000])  # argument values over their integer ranges
			maio = rng.randrange(nch) if rng.random() < 0.8 else rng.randrange(64)
			chans = []
			for _ in range(nch):
				a, b = rng.sample(self.pool, 2) if rng.random() < 0.85 else (rng.choice(self.pool),) * 2
				chans += [a, b]
			if rng.random() < 0.05:
				chans.append(rng.choice(self.pool))  # odd trailing frequency (don't-care)
			text = "SETFH %d %d %s" % (hsn, maio, " ".join(str(c) for c in chans))
			while len(text) + 5 > 1024:  # no L1 composes more than 1024 octets (trxcon's TRXC buffer)
				chans = chans[:-2]
				text = "SETFH %d %d %s" % (hsn, maio, " ".join(str(c) for c in chans))
			self.cmd(i, text)
			self.st[i]["fh"] = True

	def op_power(self):
		rng = self.rng
		i = self.pick_trx()
		if rng.random() < 0.5:
			self.cmd(i, "POWERON")
		else:
			self.cmd(i, "POWEROFF")
			if rng.random() < 0.6:
				# re-tune and power on again soon: exercises restart paths
				if rng.random() < 0.3:
					self.cmd(i, "RXTUNE %d" % rng.choice(self.pool))
				self.cmd(i, "POWERON")

	def op_fmt(self):
		rng = self.rng
		self.cmd(self.pick_trx(), "SETFORMAT %d" % rng.choice([0, 1, 0, 1, 1, 2, 15, 16, -1, 7]))

	def op_meta(self):
		rng = self.rng
		i = self.pick_trx()
		r = rng.randrange(8)
		if r == 0:
			self.cmd(i, "SETPOWER %d" % self.num(-20, 70, (0, 10, 60, 61, -13, -14, 20)))
		elif r == 1:
			self.cmd(i, "SETTA %d" % self.num(-128, 127, (0, 1, 63, 127, -128, 128, 200, -1)))
		elif r == 2:
			self.cmd(i, "FAKE_TOA %d %d" % (self.num(-33000, 33000, (0, 32767, -32768, 32760, 256, -256)),
				self.num(0, 600, (0, 0, 1, 7, 8, 256, -1) if rng.random() < 0.3 else (0, 0, 1, 7, 8, 256))))
		elif r == 3:
			self.cmd(i, "FAKE_TOA %d" % self.num(-600, 600, (1, -1, 256)))
		elif r == 4:
			self.cmd(i, "FAKE_RSSI %d %d" % (self.num(-125, -40, (-121, -120, -47, -46, -60, -110)),
				self.num(-1, 12, (0, 0, 1, -1, 5))))
		elif r == 5:
			self.cmd(i, "FAKE_RSSI %d" % self.num(-10, 10, (1, -1)))
		elif r == 6:
			self.cmd(i, "FAKE_CI %d %d" % (self.num(-1300, 1300, (1280, 1281, -1280, -1281, 0, 90)),
				self.num(0, 50, (0, 0, 1, -1, -5) if rng.random() < 0.3 else (0, 0, 1))))
		else:
			self.cmd(i, "FAKE_CI %d" % self.num(-100, 100, (1, -1)))

	def op_drop(self):
		rng = self.rng
		i = self.pick_trx()
		r = rng.random()
		if r < 0.35:
			self.cmd(i, "FAKE_DROP %d" % self.num(-2, 20, (0, 1, 2, 3, -1)))
		elif r < 0.75:
			self.cmd(i, "FAKE_DROP %d %d" % (self.num(-2, 20, (1, 2, 3, 0, -1)), self.num(-1, 60, (1, 2, 3, 0, -1, 13, 51))))
		else:
			self.cmd(i, "RFMUTE %d" % rng.choice([0, 1, 1, 0, 2]))

	def op_misc(self):
		rng = self.rng
		i = self.pick_trx()
		r = rng.randrange(12)
		if r == 0:
			self.cmd(i, "MEASURE %d" % rng.choice(self.pool + [123456]))
		elif r == 1:
			self.cmd(i, "NOMTXPOWER")
		elif r == 2:
			self.cmd(i, rng.choice(["SETSLOT 1 7", "ECHO", "SETTSC 7", "HANDOVER 1 2", "NOHANDOVER 1", "SETRXGAIN 10", "FOO", "poweron"]))
		elif r == 3:
			verb = rng.choice(sorted(KNOWN_VERBS))
			argc = rng.choice([0, 1, 2, 3, 5])
			self.cmd(i, " ".join([verb] + [str(rng.randint(-5, 9)) for _ in range(argc)]))
		elif r == 4:
			self.cmd(i, "FAKE_TRXC_DELAY %d" % rng.choice([0, 0, 1, 3, 5, 20, -1]))
		elif r == 5:
			self.ops.append({"op": "rawctrl", "trx": i, "hex": rng.choice([b"RSP POWERON 0\0", b"IND CLOCK 5\0",
				b"cmd POWERON\0", b"", b"\0", b"XYZ", b" CMD POWEROFF\0"]).hex(), "dt": self.dt()})
		elif r == 6:
			self.cmd(i, rng.choice(["POWERON", "NOMTXPOWER", "MEASURE 890000", "RXTUNE %d" % rng.choice(self.pool)]),
				src=rng.choice([4321, 40000 + rng.randrange(1000)]))
		elif r == 7:
			self.cmd(i, rng.choice(["RXTUNE", "TXTUNE"]) + " %d" % self.num(-5, 3000000, (0, 10 ** 20, 2 ** 31, 2 ** 32)))
		elif r == 8:
			self.cmd(i, "SETFORMAT %d" % self.num(-3, 20, (10 ** 20, -(10 ** 20))))
		elif r == 9:
			self.cmd(i, rng.choice(["POWERON", "POWEROFF", "NOMTXPOWER"]), nul=False)
		else:
			self.op_tune()

	def op_burst(self):
		rng = self.rng
		on = [i for i, s in enumerate(self.st) if s["on"]]
		i = rng.choice(on) if on and rng.random() < 0.9 else self.pick_trx()
		st = self.st[i]
		r = rng.random()
		if r < 0.75:
			adv = rng.randint(1, self.max_adv)
		elif r < 0.85:
			adv = rng.choice([0, 0, -1, -5, 1])
		elif r < 0.93:
			adv = rng.randint(self.max_adv, 25)
		else:
			adv = rng.choice([1000, 100000, HYPER + 5, 5000000])
		kind = rng.choice(["NB", "NB", "NB", "SB", "AB", "FB", "RAND", "RAND", "EDGE", "DUMMY",
			"TKNB", "TKNB", "TKSB", "TKAB", "TKFB", "TKDB"])
		if rng.random() < 0.04:
			kind = rng.choice(["IDLE", "ODD"])
		ver = st["ver"] if rng.random() < 0.93 else 1 - st["ver"]
		op = {"op": "burst", "trx": i, "adv": adv, "tn": rng.randrange(8),
			"pwr": rng.choice([0, 0, 10, rng.randint(0, 60), rng.randint(0, 255)]),
			"kind": kind, "bseed": rng.randrange(1 << 30), "ver": ver, "dt": self.dt()}
		if kind in ("NB", "SB", "AB", "TKNB", "TKSB", "TKAB") and rng.random() < 0.7:
			op["tsc"] = rng.randrange(8 if not kind.endswith("SB") else 4)
		if kind == "ODD":
			op["len"] = rng.choice([1, 10, 147, 149, 200, 443, 445, 600])
		self.ops.append(self.fault(op))
		if rng.random() < 0.3:  # a small train of bursts, as an L1 would send
			for k in range(rng.randint(1, 6)):
				op2 = dict(op)
				op2["tn"] = rng.randrange(8)
				op2["adv"] = adv + (k + 1 if rng.random() < 0.7 else 0)
				op2["bseed"] = rng.randrange(1 << 30)
				op2["dt"] = rng.choice([0, 0, rng.randrange(P_NS)])
				self.ops.append(op2)

	# ---- hostile input (C14) -----------------------------------------------------------
	def op_hostile(self):
		rng = self.rng
		i = self.pick_trx()
		r = rng.random()
		if r < 0.45:
			self.hostile_ctrl(i)
		elif r < 0.85:
			self.hostile_data(i)
		else:
			self.ops.append({"op": "parse", "cls": rng.choice(["tx", "rx", "rx-if"]), "hex": self.garbage_trxd().hex(), "dt": 0, "hostile": True})

	def valid_cmd_text(self):
		rng = self.rng
		return rng.choice(["POWERON", "POWEROFF", "RXTUNE %d" % rng.choice(self.pool), "TXTUNE %d" % rng.choice(self.pool),
			"SETFORMAT 1", "SETPOWER 10", "SETTA 3", "FAKE_TOA 10 2", "FAKE_RSSI -60 3", "FAKE_CI 90 5", "FAKE_DROP 3 2",
			"RFMUTE 1", "MEASURE %d" % rng.choice(self.pool), "NOMTXPOWER", "FAKE_TRXC_DELAY 1",
			"SETFH 5 1 %d %d %d %d" % tuple(rng.choice(self.pool) for _ in range(4))])

	def hostile_ctrl(self, i):
		rng = self.rng
		kind = rng.choice(["non-utf8", "non-numeric", "non-numeric", "non-numeric", "hsn-range", "garbage", "overlong",
			"embedded-nul", "no-space", "missing-args", "huge", "float", "whitespace", "third-party"])
		follow = None
		raw = None
		if kind == "non-utf8":
			base = ("CMD " + self.valid_cmd_text()).encode()
			pos = rng.randrange(len(base) + 1)
			raw = base[:pos] + bytes([rng.choice([0xff, 0xfe, 0x80, 0xc3, 0xe2])]) + base[pos:] + b"\0"
		elif kind == "non-numeric":
			verb = rng.choice(["RXTUNE", "TXTUNE", "MEASURE", "SETFORMAT", "SETPOWER", "RFMUTE", "SETTA", "FAKE_TOA", "FAKE_TOA",
				"FAKE_RSSI", "FAKE_RSSI", "FAKE_CI", "FAKE_CI", "FAKE_DROP", "FAKE_DROP", "FAKE_TRXC_DELAY", "SETFH"])
			bad = rng.choice(["abc", "", "1.5", "0x10", "--1", "1e3", "None", "\u0661x", "12a", "+-3", "9" * 30 + "z"])
			forms = {"FAKE_TOA": 2, "FAKE_RSSI": 2, "FAKE_CI": 2, "FAKE_DROP": 2}
			argc = forms.get(verb, 1) if rng.random() < 0.7 else 1
			if verb == "SETFH":
				argc = rng.choice([4, 6])
			args = [str(rng.randint(-5, 200)) for _ in range(argc)]
			args[rng.randrange(argc)] = bad
			raw = ("CMD %s %s\0" % (verb, " ".join(args))).encode()
			absol = {"FAKE_TOA": "FAKE_TOA %d %d" % (rng.randint(-50, 50), rng.choice([0, 0, 3])),
				"FAKE_RSSI": "FAKE_RSSI %d %d" % (rng.randint(-100, -50), rng.choice([0, 2])),
				"FAKE_CI": "FAKE_CI %d %d" % (rng.randint(0, 200), rng.choice([0, 4])),
				"FAKE_DROP": "FAKE_DROP %d %d" % (rng.randint(0, 3), rng.randint(1, 4)),
				"SETFH": "SETFH %d %d %d %d" % (rng.randint(0, 63), 0, rng.choice(self.pool), rng.choice(self.pool))}
			if verb in absol and (verb == "SETFH" or rng.random() < 0.5):
				follow = absol[verb]
		elif kind == "hsn-range":
			hsn = rng.choice([64, 65, 100, 127, 255, 1000, -1, -64, 10 ** 9])
			n = rng.choice([1, 2, 3, 5])
			ch = " ".join("%d %d" % (rng.choice(self.pool), rng.choice(self.pool)) for _ in range(n))
			raw = ("CMD SETFH %d %d %s\0" % (hsn, rng.choice([0, 1, -1, 70]), ch)).encode()
			if rng.random() < 0.5:
				follow = "SETFH %d 0 %d %d" % (rng.randint(0, 63), rng.choice(self.pool), rng.choice(self.pool))
			elif rng.random() < 0.5:
				follow = "POWEROFF"
		elif kind == "garbage":
			raw = bytes(rng.getrandbits(8) for _ in range(rng.choice([0, 1, 3, 4, 5, 16, 100, 300])))
			if rng.random() < 0.5:
				raw = b"CMD" + raw
		elif kind == "overlong":
			# (no over-long SETFH: it may legitimately be applied, and other sockets' datagrams of the
			# same instant are served before a corrective command on this socket could be read)
			verb = rng.choice(["RXTUNE", "FOO", "POWERON", "MEASURE", "SETFORMAT"])
			raw = ("CMD " + verb + " " + " ".join(
				str(rng.choice(self.pool)) for _ in range(rng.choice([700, 1200])))).encode() + b"\0"
			if verb.startswith("SETFH"):  # may or may not be applied: define the state again at once
				follow = "SETFH %d 0 %d %d" % (rng.randint(0, 63), rng.choice(self.pool), rng.choice(self.pool))
		elif kind == "embedded-nul":
			raw = ("CMD " + self.valid_cmd_text()).encode().replace(b" ", b"\0", 1) + b"\0"
		elif kind == "no-space":
			raw = ("CMD" + self.valid_cmd_text().replace(" ", "")).encode() + b"\0"
		elif kind == "missing-args":
			raw = ("CMD " + self.valid_cmd_text().split(" ")[0] + rng.choice([" ", "  ", " \0", "\0\0", ""])).encode()
		elif kind == "huge":
			raw = ("CMD %s %s\0" % (rng.choice(["RXTUNE", "SETTA", "SETPOWER", "FAKE_TOA", "SETFORMAT"]),
				rng.choice(["9" * 40, "-" + "9" * 40, str(2 ** 64), str(-2 ** 63)]))).encode()
			follow = rng.choice(["SETTA 0", "SETPOWER 0", "FAKE_TOA 0 0", "FAKE_TRXC_DELAY 0", "RXTUNE %d" % self.pool[0]])
			kind = "huge"
		elif kind == "float":
			raw = b"CMD FAKE_TRXC_DELAY 2.5\0"
		elif kind == "whitespace":
			raw = ("CMD  " + self.valid_cmd_text().replace(" ", rng.choice(["  ", "\t", " \n"]))).encode() + b"\0"
		else:
			raw = ("CMD " + self.valid_cmd_text() + "\0").encode()
		op = {"op": "rawctrl", "trx": i, "hex": raw.hex(), "dt": self.dt(), "hostile": True, "mut": kind}
		if kind == "third-party":
			op["src"] = 50000 + rng.randrange(100)
		self.ops.append(op)
		if follow:
			self.ops.append({"op": "cmd", "trx": i, "text": follow, "dt": 0})

	def garbage_trxd(self):
		rng = self.rng
		r = rng.random()
		if r < 0.3:
			return bytes(rng.getrandbits(8) for _ in range(rng.choice([0, 1, 4, 5, 6, 7, 8, 10, 11, 12, 100, 154, 156, 160, 500, 600])))
		st = self.st[self.pick_trx()]
		ver = rng.choice([st["ver"], st["ver"], 0, 1, 2, 7, 15])
		bits = bytes(rng.choice([0, 1, 1, 0, 2, 255, 127]) if rng.random() < 0.1 else rng.getrandbits(1)
			for _ in range(rng.choice([0, 1, 100, 147, 148, 149, 150, 296, 443, 444, 445, 446, 506, 600])))
		hdr = bytes([((ver & 0xf) << 4) | rng.choice([rng.randrange(8), 0x08 | rng.randrange(8)])]) + \
			rng.choice([0, 1, HYPER - 1, HYPER, HYPER + 1, 2 ** 32 - 1, rng.randrange(2 ** 32)]).to_bytes(4, "big") + \
			bytes([rng.randrange(256)])
		data = hdr + bits
		if rng.random() < 0.3:
			data = data[:rng.randrange(len(data) + 1)]
		if rng.random() < 0.2:
			b = bytearray(data)
			for _ in range(rng.choice([1, 2, 8])):
				if b:
					b[rng.randrange(len(b))] ^= 1 << rng.randrange(8)
			data = bytes(b)
		return data

	def hostile_data(self, i):
		rng = self.rng
		op = {"op": "rawdata", "trx": i, "hex": self.garbage_trxd().hex(), "dt": self.dt(), "hostile": True}
		if rng.random() < 0.1:
			op["src"] = 50000 + rng.randrange(100)
		self.ops.append(op)

	def op_period(self):
		"""A traffic pattern, then the same pattern again exactly one superframe (1326 frames: the
		period of T2 and T3) later under the same configuration: frame numbers congruent modulo
		1326 recur, while the hopping sequence (which also depends on T1 mod 64) differs —
		whatever is remembered per frame number modulo a GSM period shows."""
		rng = self.rng
		n = len(self.trx)
		pattern = []
		for _ in range(rng.randint(4, 10)):
			pattern.append({"trx": rng.randrange(n), "adv": rng.randint(1, 6), "tn": rng.randrange(8),
				"pwr": rng.choice([0, 0, 10]), "kind": rng.choice(["NB", "RAND", "SB"]), "dt": rng.choice([1000, P_NS // 2, P_NS + 1000])})
		if rng.random() < 0.7:
			self.op_tune()
		span = 0
		for rep in range(2):
			for b in pattern:
				self.ops.append({"op": "burst", "trx": b["trx"], "adv": b["adv"], "tn": b["tn"], "pwr": b["pwr"], "kind": b["kind"],
					"bseed": rng.randrange(1 << 30), "ver": self.st[b["trx"]]["ver"], "dt": b["dt"]})
				span += b["dt"]
			if rep == 0:
				# the clock generator's period is 4 614 999 ns (clck_gen.py computes it in floating point)
				k = rng.choice([1, 1, 1, 2])
				self.ops.append({"op": "idle", "dt": k * 1326 * 4_614_999 - span})
		self.max_adv = max(self.max_adv, 6)

	def op_restart(self):
		"""Everything off (the shared clock stops), back on, a traffic pattern — twice, with a
		re-configuration in between.  The clock restarts at the start frame each time and the
		pattern is replayed with the same timing, so THE SAME FRAME NUMBERS RECUR for the same
		senders under a different configuration: whatever was remembered per frame number, per
		sender or per transceiver across a power cycle shows."""
		rng = self.rng
		n = len(self.trx)
		pattern = []
		for _ in range(rng.randint(2, 7)):
			pattern.append({"trx": rng.randrange(n), "adv": rng.randint(1, 6), "tn": rng.randrange(8),
				"pwr": rng.choice([0, 0, 10, 30]), "kind": rng.choice(["NB", "RAND", "SB", "AB", "TKNB", "EDGE"]),
				"dt": rng.choice([0, 0, 1000, P_NS // 2, P_NS])})
		gap_on = rng.choice([1000, P_NS // 3, P_NS])

		def all_off():
			order = list(range(n))
			rng.shuffle(order)
			for i in order:
				self.ops.append({"op": "cmd", "trx": i, "text": "POWEROFF", "dt": rng.choice([0, 1000])})
				self.st[i]["on"] = False
				self.st[i]["fh"] = False

		def all_on():
			order = list(range(n))
			rng.shuffle(order)
			for k, i in enumerate(order):
				if rng.random() < 0.9:
					self.ops.append({"op": "cmd", "trx": i, "text": "POWERON", "dt": gap_on if k == 0 else 0})
					self.st[i]["on"] = True

		def play():
			for b in pattern:
				op = {"op": "burst", "trx": b["trx"], "adv": b["adv"], "tn": b["tn"], "pwr": b["pwr"], "kind": b["kind"],
					"bseed": rng.randrange(1 << 30), "ver": self.st[b["trx"]]["ver"], "dt": b["dt"]}
				self.ops.append(op)
			self.ops.append({"op": "idle", "dt": 9 * P_NS})

		all_off()
		# make sure most of them can be powered on at all
		for i in range(n):
			if rng.random() < 0.5:
				self.cmd(i, "RXTUNE %d" % rng.choice(self.pool))
				self.cmd(i, "TXTUNE %d" % rng.choice(self.pool))
		if rng.random() < 0.6:
			self.op_tune()
		all_on()
		play()
		all_off()
		for _ in range(rng.randint(1, 4)):
			r = rng.random()
			if r < 0.6:
				self.op_tune()
			elif r < 0.8:
				self.op_fmt()
			else:
				self.op_meta()
		all_on()
		play()

	def op_idle(self):
		self.ops.append({"op": "idle", "dt": self.rng.randrange(1, 12) * P_NS})


def toolkit_burst(op):
	"""A burst from the toolkit's own generator (rand_burst_gen.RandBurstGen), seeded."""
	import random
	rbg = toolkit.tk("rand_burst_gen")
	gs = toolkit.tk("gsm_shared")
	saved = rbg.__dict__.get("random")
	rbg.random = random.Random(op["bseed"])
	try:
		g = rbg.RandBurstGen()
		which = op["kind"][2:]
		tsc = op.get("tsc")
		member = getattr(gs.TrainingSeqGMSK, "%s_TS%d" % (which, tsc)) if (tsc is not None and which in ("NB", "SB", "AB")) else None
		if which == "NB":
			b = g.gen_nb(member)
		elif which == "SB":
			b = g.gen_sb(member)
		elif which == "AB":
			b = g.gen_ab(member)
		elif which == "FB":
			b = g.gen_fb()
		else:
			b = g.gen_db()
		return bytes(b)
	finally:
		rbg.random = saved


def burst_bits(op):
	import random
	r = random.Random(op["bseed"])
	kind = op["kind"]
	if kind.startswith("TK"):
		return toolkit_burst(op)
	if kind == "IDLE":
		return b""
	if kind == "ODD":
		return bytes(r.getrandbits(1) for _ in range(op["len"]))
	if kind == "DUMMY":
		return DUMMY_BITS
	return rc.gen_burst(r, kind, op.get("tsc"))


DUMMY_BITS = bytes([
	0, 0, 0, 1, 1, 1, 1, 1, 0, 1, 1, 0, 1, 1, 1, 0, 1, 1, 0, 0, 0, 0, 0, 1, 0, 1, 0, 0, 1, 0, 0, 1, 1, 1, 0,
	0, 0, 0, 0, 1, 0, 0, 1, 0, 0, 0, 1, 0, 0, 0, 0, 0, 0, 0, 1, 1, 1, 1, 1, 0, 0, 0, 1, 1, 1, 0, 0,
	0, 1, 0, 1, 1, 1, 0, 0, 0, 1, 0, 1, 1, 1, 0, 0, 0, 1, 0, 1, 0, 1, 1, 1, 0, 1, 0, 0, 1, 0, 1, 0,
	0, 0, 1, 1, 0, 0, 1, 1, 0, 0, 1, 1, 1, 0, 0, 1, 1, 1, 1, 0, 1, 0, 0, 1, 1, 1, 1, 1, 0, 0, 0, 1,
	0, 0, 1, 0, 1, 1, 1, 1, 1, 0, 1, 0, 1, 0, 0, 0, 0,
])


# ======================================================================================
#  execution
# ======================================================================================
class World:
	def __init__(self, plan, policy):
		self.plan = plan
		self.cfg = plan["config"]
		self.sim = Sim(policy)
		self.net = SimNet(self.sim)
		self.cur_fn = self.cfg.get("clck_start", 0)
		self.ticks = 0
		self.env_log = []
		self.saved = []
		self.app = None
		self.trxcon = None
		self.rx_if = None
		self.faults = {}

	def fired(self, k, n=1):
		self.faults[k] = self.faults.get(k, 0) + n

	def patch(self, mod, name, value):
		self.saved.append((mod, name, mod.__dict__.get(name, _MISSING)))
		setattr(mod, name, value)

	def restore(self):
		for mod, name, old in reversed(self.saved):
			if old is _MISSING:
				try:
					delattr(mod, name)
				except AttributeError:
					pass
			else:
				setattr(mod, name, old)
		self.saved = []
		from sim.seams import uninstall_seams
		uninstall_seams()

	def build(self):
		sim, net, cfg = self.sim, self.net, self.cfg
		toolkit.reset()  # fresh module objects: nothing leaks from the previous run of this process
		fake_trx = toolkit.tk("fake_trx")
		clck_gen = toolkit.tk("clck_gen")
		transceiver = toolkit.tk("transceiver")
		ctrl_if = toolkit.tk("ctrl_if")
		udp_link = toolkit.tk("udp_link")
		fake_pm = toolkit.tk("fake_pm")
		env = RandomSeam(rng_for(self.plan.get("seed") or 0, "env"), self.env_log)
		# Every source of nondeterminism goes behind a seam, however the module got hold of it
		# (`import threading`, `from threading import Lock`, `import random`, ...).  As a second
		# line of defence the global PRNG is re-seeded per run (only one simulated thread runs at
		# a time, so even an unpatched draw is a pure function of the seed).
		import random as _random
		_random.seed(rng_for(self.plan.get("seed") or 0, "global-prng").getrandbits(64))
		mods = [fake_trx, fake_pm, transceiver, ctrl_if, clck_gen, udp_link] + [toolkit.tk(m) for m in
			("burst_fwd", "data_if", "ctrl_if_trx", "gsm_shared", "trx_list", "app_common")]
		from sim.seams import install_seams
		install_seams(mods, self.patch, sim, net, env)
		self.patch(fake_trx, "signal", _SignalStub)
		trx = cfg["trx"]
		argv = ["fake_trx", "-b", cfg.get("bind_addr", "0.0.0.0"),
			"-R", trx[0]["addr"], "-P", str(trx[0]["port"]),
			"-r", trx[1]["addr"], "-p", str(trx[1]["port"])]
		for t in trx[2:]:
			d = "%s:%d" % (t["addr"], t["port"])
			if t.get("name"):
				d = "%s@%s" % (t["name"], d)
			if t.get("idx", 0):
				d += "/%d" % t["idx"]
			argv += ["--trx", d]
		old_argv = sys.argv
		sys.argv = argv
		try:
			class SimApp(fake_trx.Application):
				def app_print_copyright(self, holders=[]):
					pass

				def app_init_logging(self, argv):
					pass
			self.app = app = SimApp()
		finally:
			sys.argv = old_argv
		# from here on the harness relies on the public attributes Application itself uses
		# (clck_gen, clck_handler, start, run): if they are gone, that is a harness problem,
		# never a property violation
		try:
			gen = app.clck_gen
			gen.clck_start = cfg.get("clck_start", 0)
			gen.ind_period = cfg.get("ind_period", 102)
			orig = gen.clck_handler
			gen.start, app.run
		except AttributeError as e:
			raise HarnessError("fake_trx.Application no longer offers what the harness drives: %s" % e)
		world = self

		def handler(fn):
			world.cur_fn = fn
			world.ticks += 1
			sim.record("tick-begin", fn=fn, thread=sim.current.name if sim.current else None)
			orig(fn)
			sim.record("tick-end", fn=fn)
			if slow and slow["from"] <= world.ticks_total < slow["from"] + slow["count"]:
				world.fired("slow-tick")
				sim.sleep(slow["dur"])
			world.ticks_total += 1
		slow = cfg.get("slow")
		world.ticks_total = 0
		gen.clck_handler = handler
		orig_start = gen.start

		def start():
			world.cur_fn = gen.clck_start
			return orig_start()
		gen.start = start
		self.binds_at_init = list(net.binds)
		if cfg.get("trxcon"):
			if not um_trxcon.available():
				raise HarnessError("this plan needs the trxcon driver, which could not be built: %s" % (um_trxcon.build_error() or "")[-300:])
			self.trxcon = um_trxcon.TrxconL1(self, trx[cfg["trxcon"]["trx"]])
			net.tx_hook = self.on_trx_tx
		if cfg.get("mode") == "fine":
			sim.enable_line_preemption(um_race.TRACE_FILES)
		# the socket thread
		t = sim.spawn(app.run, "sock")
		sim.start_thread(t)

	# ---- the L1 side ---------------------------------------------------------------------
	def peer_src(self, t, iface, op):
		port = {"ctrl": t["port"] + 101 + 2 * t.get("idx", 0), "data": t["port"] + 102 + 2 * t.get("idx", 0)}[iface]
		if op.get("src"):
			return ("127.0.0.9", op["src"])
		return (t["addr"], port)

	def send_to_trx(self, t, iface, data, op):
		"""Datagram from the L1 stub towards fake_trx, through the faulty network."""
		sim, net = self.sim, self.net
		port = {"ctrl": t["port"] + 1 + 2 * t.get("idx", 0), "data": t["port"] + 2 + 2 * t.get("idx", 0)}[iface]
		src = self.peer_src(t, iface, op)
		if op.get("lost"):
			self.fired("loss")
			return
		delay = op.get("delay", 0)
		if delay:
			self.fired("delay")
		copies = 1 + op.get("dup", 0)
		if copies > 1:
			self.fired("dup", copies - 1)
		for c in range(copies):
			d = delay + (op.get("dup_delay", 0) * c)
			if d:
				sim.after(d, lambda: net.deliver(port, data, src))
			else:
				net.deliver(port, data, src)

	def on_trx_tx(self, sock, data, dst):
		"""Datagrams fake_trx sends towards the L1 that is a real trxcon."""
		tc = self.trxcon
		if tc is None:
			return
		if dst[1] == tc.ctrl_local:
			tc.rx("ctrl", data)
		elif dst[1] == tc.data_local:
			tc.rx("data", data)

	def do_op(self, op):
		trx = self.cfg["trx"]
		o = op["op"]
		if o == "idle":
			return
		if o == "parse":
			self.do_parse(op)
			return
		if o == "tcmd":
			if self.trxcon is not None:
				self.trxcon.do_cmd(op["line"])
			return
		if o == "tburst":
			if self.trxcon is not None:
				self.trxcon.do_burst(op, self.cur_fn)
			return
		t = trx[op["trx"] % len(trx)]
		if o == "cmd":
			text = "CMD " + op["text"] + ("\0" if op.get("nul", True) else "")
			self.send_to_trx(t, "ctrl", text.encode(), op)
		elif o == "rawctrl":
			self.send_to_trx(t, "ctrl", bytes.fromhex(op["hex"]), op)
		elif o == "rawdata":
			self.send_to_trx(t, "data", bytes.fromhex(op["hex"]), op)
		elif o == "burst":
			# an L1 numbers frames modulo the hyperframe; only the deliberately absurd advances
			# (>= 1000 frames) are sent as they are, possibly beyond the hyperframe
			if -1000 < op["adv"] < 1000:
				fn = (self.cur_fn + op["adv"]) % HYPER
			else:
				fn = (self.cur_fn + op["adv"]) % (1 << 32)
			bits = burst_bits(op)
			if op["kind"].startswith("TK"):
				which = op["kind"][2:]
				ok = len(bits) == 148
				if ok and which in ("NB", "SB", "AB") and op.get("tsc") is not None:
					ok = (op["tsc"], 0, which) in rc.ts_candidates(bits)
				if ok and which == "FB":
					ok = not any(bits)
				self.sim.record("toolkit-burst", which=which, tsc=op.get("tsc"), ok=ok, length=len(bits))
			data = rc.enc_tx(op.get("ver", 0), op["tn"], fn, op["pwr"], bits)
			self.send_to_trx(t, "data", data, op)

	def do_parse(self, op):
		"""Feed octets straight into the toolkit's message parsers / the MS-side receiver."""
		data = bytes.fromhex(op["hex"])
		dm = toolkit.tk("data_msg")
		sim = self.sim
		try:
			if op["cls"] == "tx":
				dm.TxMsg().parse_msg(bytearray(data))
			elif op["cls"] == "rx":
				dm.RxMsg().parse_msg(bytearray(data))
			else:
				di = toolkit.tk("data_if")
				if self.rx_if is None:
					self.rx_if = di.DATAInterface("127.0.0.1", 65001, "0.0.0.0", 65002)
				self.net.deliver(65002, data, ("127.0.0.1", 65001))
				self.rx_if.recv_rx_msg()
			sim.record("parse-ok", cls=op["cls"])
		except ValueError:
			if op["cls"] == "rx-if":
				sim.record("parse-raised", cls=op["cls"], exc="ValueError", msg="escaped recv_rx_msg")
			else:
				sim.record("parse-ok", cls=op["cls"], rejected=True)
		except Exception as e:
			sim.record("parse-raised", cls=op["cls"], exc=type(e).__name__, msg=str(e)[:100])

	def sync_op(self, op):
		"""Release the datagram at exactly the instant the clock thread wakes up for its next
		tick, so that both threads are runnable together."""
		sim = self.sim
		due = [x.wake_at for x in sim.threads if x.name != "sock" and x.state == "blocked" and x.wake_at is not None and x.wake_at >= sim.now]
		if due:
			self.fired("race-release")
			sim.at(min(due), lambda: self.do_op(op))
		else:
			self.do_op(op)

	def run_ops(self):
		sim = self.sim
		ops = self.plan["ops"]
		if self.trxcon is not None:
			self.trxcon.open()
		t = 0
		for op in ops:
			t += max(0, int(op.get("dt", 0)))
			if op.get("sync") == "tick":
				sim.at(t, lambda op=op: self.sync_op(op))
			else:
				sim.at(t, lambda op=op: self.do_op(op))
		self.t_end = t
		sim.run(until=t + 2 * P_NS)
		# drain: let the socket thread finish what it has read (delayed responses, queued datagrams)
		for _ in range(400):
			sock = [x for x in sim.threads if x.name == "sock" and x.state != "done"]
			if not sock:
				break
			busy = any(s.queue for s in self.net.by_port.values() if s.on_rx is None)
			if (not sock or (sock[0].blocked_on and sock[0].blocked_on[0] == "select")) and not busy:
				break
			sim.run(until=sim.now + 4 * P_NS)


_MISSING = object()
_AFTER_STORE = {}


def _after_store_lines():
	"""'file.py:line' of the lines that come right after a statement storing into an attribute
	(self.x = ..., trx.x -= ..., del self.x) in the traced toolkit files (of the current tree)."""
	key = toolkit.TK_DIR
	if key not in _AFTER_STORE:
		import ast
		import os
		out = set()
		for fn in um_race.TRACE_FILES:
			try:
				src = open(os.path.join(toolkit.TK_DIR, fn)).read()
				tree = ast.parse(src)
			except Exception:
				continue
			stores = set()
			for node in ast.walk(tree):
				tg = []
				if isinstance(node, ast.Assign):
					tg = node.targets
				elif isinstance(node, (ast.AugAssign, ast.AnnAssign)):
					tg = [node.target]
				elif isinstance(node, ast.Delete):
					tg = node.targets
				flat = []
				for t in tg:
					flat.extend(t.elts if isinstance(t, (ast.Tuple, ast.List)) else [t])
				if any(isinstance(t, ast.Attribute) for t in flat):
					stores.add(getattr(node, "end_lineno", node.lineno))
			lines = src.split("\n")
			for ln in stores:
				# the next line that holds code
				k = ln + 1
				while k <= len(lines) and (not lines[k - 1].strip() or lines[k - 1].strip().startswith("#")):
					k += 1
				out.add("%s:%d" % (fn, k))
		_AFTER_STORE[key] = out
	return _AFTER_STORE[key]


def canonical(history):
	"""The history with every maximal run of consecutive datagram transmissions of one virtual
	instant stably sorted by sending socket.  In which order one tick serves *different*
	sockets (e.g. the clock indication to several links, which an implementation may keep in a
	set ordered by object address) is no observable of any property and must not make the
	digest — and with it the determinism self-check — depend on memory layout; the order of the
	datagrams of one socket is kept."""
	out = []
	run = []
	for ev in history:
		if ev[1] == "tx" and (not run or run[-1][0] == ev[0]):
			run.append(ev)
			continue
		if run:
			out.extend(sorted(run, key=lambda e: e[2]["sport"] or 0))
			run = []
		if ev[1] == "tx":
			run.append(ev)
		else:
			out.append(ev)
	if run:
		out.extend(sorted(run, key=lambda e: e[2]["sport"] or 0))
	return out


class UmEngine:
	name = "um"

	def setup(self):
		for m in ("fake_trx", "clck_gen", "transceiver", "ctrl_if", "udp_link", "fake_pm", "data_if", "burst_fwd"):
			toolkit.tk(m)
		um_trxcon.setup()

	def notes(self):
		return ["trxcon profile disabled: the driver could not be built (%s)" % um_trxcon.build_error()[-200:]] if um_trxcon.build_error() else []

	def generate(self, seed, prop, tier):
		share = {"C03": 0.5, "C12": 0.3, "C05": 0.15}.get(prop, 0.0)
		tshare = {"C05": 0.15, "C10": 0.05}.get(prop, 0.0)
		pr = rng_for(seed, "profile").random()
		if tshare and share <= pr < share + tshare and um_trxcon.available():
			# the real trx_if.c (trxcon) is the MS-side L1 of this run
			plan = um_trxcon.build_trxcon_plan(rng_for(seed, "plan"), tier)
			plan["seed"] = seed
			return plan
		if share and pr < share:
			plan = um_race.build_race_plan(rng_for(seed, "plan"), tier, prop)
			plan["seed"] = seed
			return plan
		r2 = {"C02": 0.3, "C10": 0.3, "C18": 0.3, "C05": 0.25, "C12": 0.1, "C03": 0.15}.get(prop, 0.0)
		if r2 and share + tshare <= pr < share + tshare + r2:
			# what the recipients see while a command or an arrival races a tick (um_race2.py)
			plan = um_race2.build_race2_plan(rng_for(seed, "plan"), tier, prop)
			plan["seed"] = seed
			return plan
		g = Gen(seed, prop, tier)
		plan = g.build()
		plan["seed"] = seed
		return plan

	def drop_ops(self, plan, lo, hi):
		"""Remove ops[lo:hi] but keep the absolute timing of everything after them."""
		ops = plan["ops"]
		gone = sum(max(0, int(o.get("dt", 0))) for o in ops[lo:hi])
		rest = [dict(o) for o in ops[hi:]]
		if rest and gone:
			rest[0]["dt"] = int(rest[0].get("dt", 0)) + gone
		p = dict(plan)
		p["ops"] = [dict(o) for o in ops[:lo]] + rest
		return p

	def simplify(self, plan):
		# fewer transceivers (drop trailing extras nobody addresses), faults off, simpler clock
		cfg = plan["config"]
		used = {op.get("trx", 0) for op in plan["ops"]}
		if len(cfg["trx"]) > 2 and max(used | {1}) < len(cfg["trx"]) - 1:
			p = json.loads(json.dumps(plan))
			p["config"]["trx"] = cfg["trx"][:-1]
			yield p
		for i, op in enumerate(plan["ops"]):
			for k in ("delay", "dup", "lost", "src"):
				if k in op:
					p = json.loads(json.dumps(plan))
					del p["ops"][i][k]
					yield p
		if cfg.get("ind_period") != 102:
			p = json.loads(json.dumps(plan))
			p["config"]["ind_period"] = 102
			yield p
		if cfg.get("clck_start"):
			p = json.loads(json.dumps(plan))
			p["config"]["clck_start"] = 0
			yield p
		for i, op in enumerate(plan["ops"]):
			if op.get("dt", 0) > P_NS:
				p = json.loads(json.dumps(plan))
				p["ops"][i]["dt"] = P_NS
				yield p

	def execute(self, plan, prop, choices=None):
		if plan["config"].get("mode") == "fine":
			return self.execute_fine(plan, prop, choices)
		return self.execute_coarse(plan, prop, choices)

	# ---- fine schedules (C03 race profile) ------------------------------------------------
	def _run_world(self, plan, pol, log_points=False):
		w = World(plan, pol)
		sim = w.sim
		if log_points:
			sim.point_log = []
		toolkit.capture_logs(lambda lvl, fn, msg: sim.record("log", level=lvl, file=fn, msg=msg), level=20)
		w.init_error = None
		stuck = []
		try:
			try:
				w.build()
			except HarnessError:
				raise
			except Exception as e:  # the application could not even be constructed
				w.init_error = "%s: %s" % (type(e).__name__, e)
			if w.init_error is None:
				w.run_ops()
				stuck = [b for b in sim.blocked_threads() if b[1] and b[1][0] == "lock"]
		finally:
			sim.abort()
			w.restore()
			toolkit.release_logs()
		return w, stuck

	def execute_fine(self, plan, prop, choices=None):
		seed = plan.get("seed") or 0
		fine = plan["config"].get("fine", {})
		res = Result()
		if choices is None:
			# a dry run (no pre-emption) lists every decision point — line events executed by one
			# thread while the other is runnable — with its race window and source line; the
			# strategy then places change points among them
			srng = rng_for(seed, "sched")
			picks = [srng.randrange(2) for _ in range(64)]
			w0, _ = self._run_world(plan, Policy(picks=picks), log_points=True)
			if w0.init_error:
				res.violations = [{"clause": "ports.bind-plan", "detail": {"init_exception": w0.init_error}, "owners": ["C12"]}]
				res.digest = digest_of(res.violations)
				return res
			pts = w0.sim.point_log
			L = max(1, len(pts))
			windows = {}
			for key, th, loc in pts:
				windows.setdefault(key[0], []).append((key, loc))
			strat = fine.get("strategy", "sweep")
			pre = []
			walk = 0.0
			if strat == "sweep":
				# one change point per race window: a source line chosen uniformly among the lines
				# executed in the window, then one of its dynamic occurrences
				for wt in sorted(windows):
					by_loc = {}
					for key, loc in windows[wt]:
						by_loc.setdefault(loc, []).append(key)
					# lines of the modules that hold the state shared by the two threads weigh more
					locs = sorted(by_loc)
					heavy = ("transceiver.py", "burst_fwd.py", "fake_trx.py", "gsm_shared.py") if plan["config"].get("race2") else ("transceiver.py", "burst_fwd.py")
					wts = [(6 if plan["config"].get("race2") else 3) if l.startswith(heavy) else 1 for l in locs]
					if plan["config"].get("race2"):
						# a multi-step update of shared state is torn right after one of its stores:
						# lines that follow an attribute store weigh five times as much again
						after = _after_store_lines()
						wts = [w * (5 if l in after else 1) for w, l in zip(wts, locs)]
					loc = srng.choices(locs, wts)[0]
					pre.append(srng.choice(by_loc[loc]))

			elif strat in ("pct2", "pct3"):
				d = 2 if strat == "pct2" else 3
				for wt in sorted(windows):
					n = len(windows[wt])
					pre += [(wt, srng.randint(1, 2 * n)) for _ in range(d)]
			else:
				walk = fine.get("p", 0.05)
			pol = Policy(rng=srng, preempt_at=pre, walk_p=walk)
			pol.replay_picks = list(picks)
			res.probes["race-window-lines"] = L
			res.probes["race-windows"] = len(windows)
		else:
			pol = Policy(picks=choices.get("picks"), preempt_at=choices.get("preempt_at"))
		w, stuck = self._run_world(plan, pol)
		sim = w.sim
		if w.init_error:
			res.violations = [{"clause": "ports.bind-plan", "detail": {"init_exception": w.init_error}, "owners": ["C12"]}]
			res.digest = digest_of(res.violations)
			return res
		viols, stats = um_race.check_race(sim.history, plan["config"])
		if plan["config"].get("race2"):
			# the senders re-tune in this profile, so the burst-centric oracle's sniffers do not see
			# every emission: only its sniffer-independent clauses are kept
			viols = [v for v in viols if v["clause"] in ("C03.thread-death", "C05.race-no-response", "C03.malformed-datagram")]
			v2, st2 = um_race2.check_race2(sim.history, plan["config"])
			viols = viols + v2
			stats.update(st2)
		if stuck:
			viols.insert(0, {"clause": "C03.deadlock", "detail": {"blocked": str(stuck)[:200]}, "owners": ["C03", "C05", "C12"]})
		for v in viols:
			if v["clause"] == "C03.thread-death":
				v["owners"] = ["C03", "C05", "C12"]
				if plan["config"].get("race2") or v["detail"].get("exc") == "Hang":
					# this profile belongs to the checks of all properties of the virtual Um interface
					v["owners"] = ["C02", "C03", "C05", "C10", "C12", "C18"]
				v["signature"] = "thread-death/%s/%s" % (v["detail"]["exc"], v["detail"]["where"][-1] if v["detail"]["where"] else "?")
		res.violations = viols
		res.sim_ns = sim.now
		res.steps = sim.line_events
		res.faults = dict(w.faults)
		res.faults["pre-emption"] = len(pol.preempted_out)
		for k, v in stats.items():
			res.probes["race-" + k] = v
		res.probes["ticks"] = w.ticks
		res.probes["lock-contention"] = sim.lock_contention
		res.digest = digest_of([canonical(sim.history), sim.switch_sig])
		res.choices = {"picks": pol.picks_out, "preempt_at": [list(k) for k in pol.preempted_out]}
		res.signature = digest_of([sim.switch_sig, stats])
		res.nontrivial = stats["bursts"] > 0 and len(pol.preempted_out) > 0
		return res

	def execute_coarse(self, plan, prop, choices=None):
		pol = Policy(rng=rng_for(plan.get("seed") or 0, "sched"),
			picks=choices.get("picks") if choices else None,
			preempt_at=choices.get("preempt_at") if choices else None)
		w = World(plan, pol)
		sim = w.sim
		res = Result()
		hostile = any(op.get("hostile") for op in plan["ops"])
		mon = Monitor(plan["config"], hostile=hostile)
		toolkit.capture_logs(lambda lvl, fn, msg: sim.record("log", level=lvl, file=fn, msg=msg), level=20)
		try:
			try:
				w.build()
			except HarnessError:
				raise
			except Exception as e:
				res.violations = [{"clause": "ports.bind-plan", "detail": {"init_exception": "%s: %s" % (type(e).__name__, e)},
					"owners": ["C12"]}]
				res.digest = digest_of(res.violations)
				return res
			mon.check_binds(w.binds_at_init)
			w.run_ops()
			for ev in sim.history:
				mon.feed(ev)
			dead = [d for d in sim.deaths]
			viols = mon.finish(sim.now, dead)
			if w.trxcon is not None:
				viols = w.trxcon.finish() + viols
			for t, k, kw in sim.history:
				if k == "toolkit-burst":
					mon.m.probe("toolkit-generator-burst")
					if not kw["ok"]:
						viols.insert(0, {"clause": "meta.generator-layout", "detail": dict(kw), "owners": ["C10"]})
				if k == "parse-raised":
					viols.insert(0, {"clause": "hostile.parser-raised", "detail": dict(kw),
						"signature": "hostile.parser-raised/%s/%s" % (kw["cls"], kw["exc"]), "owners": ["C14"]})
				if k == "thread-death":
					sock = kw["thread"] == "sock"
					owners = ["C05", "C03", "C12"] if sock else ["C03", "C12", "C02", "C10", "C18"]
					if hostile:
						owners = ["C14"] + owners
					if kw["exc"] == "Hang":  # an endless loop: whatever the property, it cannot hold any more
						owners = ["C02", "C03", "C05", "C10", "C12", "C14", "C18"]
					viols.insert(0, {"clause": "thread-death.%s" % ("socket" if sock else "clock"),
						"detail": {"exc": kw["exc"], "msg": kw["msg"], "where": kw["where"]},
						"signature": "thread-death/%s/%s" % (kw["exc"], kw["where"][-1] if kw["where"] else "?"),
						"owners": owners})
		finally:
			sim.abort()
			w.restore()
			toolkit.release_logs()
			if w.trxcon is not None:
				w.trxcon.close()
		if hostile:
			for v in viols:
				if "C14" not in v["owners"]:
					v["owners"] = list(v["owners"]) + ["C14"]
			kinds = {}
			for op in plan["ops"]:
				if op.get("hostile"):
					k = "hostile-" + (op.get("mut") or op["op"])
					kinds[k] = kinds.get(k, 0) + 1
			for k, n in kinds.items():
				w.fired(k, n)
		res.violations = viols
		res.sim_ns = sim.now
		res.steps = len(sim.history)
		res.faults = dict(w.faults)
		if w.net.stats.get("recv-truncation"):
			res.faults["recv-truncation"] = w.net.stats["recv-truncation"]
		res.probes = dict(mon.m.stats)
		if w.trxcon is not None:
			res.probes.update(w.trxcon.stats)
			res.probes["trxcon-session"] = 1
		res.probes["ticks"] = w.ticks
		res.digest = digest_of(canonical(sim.history))
		res.choices = {"picks": pol.picks_out, "preempt_at": pol.preempted_out}
		res.signature = digest_of(mon.trace[:400])
		res.nontrivial = mon.discharged > 0 and w.ticks > 0
		return res


ENGINE = UmEngine()
