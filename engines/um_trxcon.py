# trxcon clause of C05 (and the burst-indication cross-check of C10): the real, unmodified
# trx_if.c (ASan/UBSan driver process, sim/trxcon_proc.py) is the MS-side L1 of the real
# fake_trx inside the simulator.  The simulator is the (fault-free) link between the two and
# owns trxcon's 2 s retransmission timer.

from sim import refcodec as rc
from sim import trxcon_proc as tp
from engines.um_model import P_NS, HYPER

_path = {}


def setup():
	"""Build the driver once per invocation.  If trx_if.c no longer builds against the shim (a
	refactoring may use libosmocore API the shim lacks), the trxcon profile is switched off for
	this invocation — with a note in the output and the evidence — instead of failing every
	check that merely shares the engine."""
	if "zero" not in _path and "error" not in _path:
		try:
			_path["zero"] = tp.build("zero")
		except RuntimeError as e:
			_path["error"] = str(e)[-1500:]
			print("NOTE: trxcon driver could not be built, trxcon profile disabled for this run:\n%s" % _path["error"][-600:])


def available():
	return "zero" in _path


def build_error():
	return _path.get("error")


def arfcn_freqs(n):
	"""P-GSM 900 (ARFCN 1..124): (downlink kHz, uplink kHz)."""
	ul = 890000 + 200 * n
	return ul + 45000, ul


# ------------------------------------------------------------------ plan generation ----
def build_trxcon_plan(rng, tier):
	ports = [5700 + 400 * k for k in range(8)]
	rng.shuffle(ports)
	trx = [
		{"name": "BTS", "addr": "127.0.0.1", "port": ports[0], "idx": 0, "child_mgt": True},
		{"name": "MS", "addr": "127.0.0.1", "port": ports[1], "idx": 0, "child_mgt": False},
	]
	ops = []
	a0 = rng.randint(1, 124)
	dl, ul = arfcn_freqs(a0)

	def bts(text, dt=0):
		ops.append({"op": "cmd", "trx": 0, "text": text, "dt": dt})

	def tc(line, dt=0):
		ops.append({"op": "tcmd", "line": line, "dt": dt})

	def gap():
		return rng.choice([0, 0, 1000, P_NS // 3, P_NS, 3 * P_NS])

	bts("RXTUNE %d" % ul)
	bts("TXTUNE %d" % dl)
	bts_ver = 0
	if rng.random() < 0.5:
		bts_ver = rng.choice([0, 1])
		bts("SETFORMAT %d" % bts_ver)
	bts("POWERON")
	st = {"on": False, "tuned": False}
	tc("cmd RESET", gap())
	nops = rng.choice([6, 12, 25, 40] if tier != "thorough" else [12, 40, 80])
	hop = None
	for _ in range(nops):
		r = rng.random()
		if r < 0.12:
			a0 = rng.randint(1, 124)
			dl, ul = arfcn_freqs(a0)
			tc("cmd SETFREQ_H0 %d" % a0, gap())
			st["tuned"] = True
			hop = None
			if rng.random() < 0.8:
				bts("RXTUNE %d" % ul, 0)
				bts("TXTUNE %d" % dl, 0)
		elif r < 0.24:
			n = rng.choice([1, 2, 3, 5, 8, 16, 33, 64])
			ma = sorted(rng.sample(range(1, 125), n))
			hsn = rng.choice([0, rng.randint(1, 63)])
			maio = rng.randrange(n)
			tc("cmd SETFREQ_H1 %d %d %s" % (hsn, maio, ",".join(str(x) for x in ma)), gap())
			st["tuned"] = True
			hop = (hsn, maio, ma)
			if rng.random() < 0.8:  # the BTS side follows (baseband hopping seen from the air)
				pairs = " ".join("%d %d" % (arfcn_freqs(x)[1], arfcn_freqs(x)[0]) for x in ma)
				bts("SETFH %d %d %s" % (hsn, maio, pairs), 0)
		elif r < 0.34:
			if st["tuned"] and not st["on"]:
				tc("cmd POWERON", gap())
				st["on"] = True
			else:
				tc("cmd SETTA %d" % rng.randint(0, 63), gap())
		elif r < 0.42:
			tc("cmd POWEROFF", gap())
			st["on"] = False
			if hop:
				st["tuned"] = True  # fake_trx forgets hopping, RXTUNE/TXTUNE values stay
				hop = None
		elif r < 0.55:
			tc("cmd MEASURE %d" % rng.choice([a0, a0, rng.randint(1, 124)]), gap())
		elif r < 0.62:
			tc("cmd SETSLOT %d %d" % (rng.randrange(8), rng.randrange(1, 9)), gap())
		elif r < 0.68:
			tc("cmd SETTA %d" % rng.choice([0, 1, 63, rng.randint(0, 63)]), gap())
		elif r < 0.84:
			# downlink burst from the BTS stub: reaches trxcon as a burst indication
			ops.append({"op": "burst", "trx": 0, "adv": rng.randint(1, 4), "tn": rng.randrange(8), "pwr": rng.choice([0, 0, 10, 30]),
				"kind": rng.choice(["NB", "RAND", "SB", "TKNB", "DUMMY"]), "bseed": rng.randrange(1 << 30), "ver": bts_ver, "dt": gap()})
		elif r < 0.94:
			ops.append({"op": "tburst", "adv": rng.randint(1, 4), "tn": rng.randrange(8), "pwr": rng.choice([0, 5, 20]),
				"bseed": rng.randrange(1 << 30), "n": rng.choice([148, 148, 148, 444]), "dt": gap()})
		else:
			ops.append({"op": "idle", "dt": rng.randint(1, 6) * P_NS})
	ops.append({"op": "idle", "dt": 8 * P_NS})
	cfg = {"trx": trx, "clck_start": rng.choice([0, rng.randrange(HYPER), HYPER - 10]), "ind_period": 102,
		"bind_addr": "0.0.0.0", "mode": "coarse", "trxcon": {"trx": 1}}
	return {"engine": "um", "seed": None, "config": cfg, "ops": ops}


# ------------------------------------------------------------------ the node -----------
class TrxconL1:
	def __init__(self, world, t):
		self.w = world
		self.sim = world.sim
		self.net = world.net
		self.t = t
		self.base = t["port"]
		self.ctrl_local = self.base + 101
		self.data_local = self.base + 102
		self.proc = tp.TrxconProc(_path["zero"])
		self.timer_gen = 0
		self.alive = False
		self.viols = []
		self.stats = {}
		self.last_cmd = {}       # verb -> arguments of the last command put on the wire
		self.last_rsp = None     # last response text delivered to trxcon
		self.pending_meas = []   # arfcns commanded, in order
		self.crashed = False

	def probe(self, k, n=1):
		self.stats[k] = self.stats.get(k, 0) + n

	def bad(self, clause, owners, **detail):
		if len(self.viols) < 4:
			self.viols.append({"clause": clause, "detail": detail, "owners": owners})

	def request(self, line):
		if self.crashed:
			return []
		try:
			evs = self.proc.request(line)
		except tp.Crashed as c:
			self.crashed = True
			self.alive = False
			self.bad("trxcon.crash", ["C05", "C14"], request=line[:80], kind=c.kind(), frame=c.frame(),
				report=[l for l in (c.stderr or "").splitlines() if "ERROR" in l or "SUMMARY" in l][:3])
			return []
		self.handle(evs, line)
		return evs

	def open(self):
		self.request("loglevel 8")
		self.request("open %s %s %d 3 0" % (self.t["addr"], self.t["addr"], self.base))
		self.alive = not self.crashed

	def close(self):
		try:
			self.proc.close()
		except Exception:
			pass

	# ---- events coming out of trx_if.c --------------------------------------------------
	def handle(self, evs, line):
		sim = self.sim
		for ev in evs:
			k = ev[0]
			if k == "tx":
				data = tp.unhex(ev[2])
				if ev[1] == "ctrl":
					text = data.decode("latin-1")
					parts = text.rstrip("\0").split(" ")
					if len(parts) >= 2:
						self.last_cmd[parts[1]] = parts[2:]
					self.probe("trxcon-cmd-sent")
					self.net.deliver(self.base + 1, data, (self.t["addr"], self.ctrl_local))
				else:
					self.probe("trxcon-burst-sent")
					self.net.deliver(self.base + 2, data, (self.t["addr"], self.data_local))
			elif k == "timer_sched":
				self.timer_gen += 1
				g = self.timer_gen
				sim.after(int(ev[1]) * 10 ** 9 + int(ev[2]) * 1000, lambda g=g: self.fire(g))
			elif k == "timer_del":
				self.timer_gen += 1
			elif k == "rsp" and ev[1] == "MEASURE":
				self.probe("trxcon-measure-result")
				want = self.pending_meas.pop(0) if self.pending_meas else None
				txt = (self.last_rsp or "").rstrip("\0").split(" ")
				dbm = txt[-1] if txt else None
				if want is None or int(ev[2]) != want or str(ev[3]) != str(dbm):
					self.bad("trxcon.measure-result", ["C05"], got=ev[2:4], commanded_arfcn=want, response=self.last_rsp)
			elif k == "burst_ind":
				self.on_burst_ind(ev)
			elif k == "fsm_term":
				rsp = (self.last_rsp or "")
				st = rsp.rstrip("\0").split(" ")
				refused = len(st) >= 3 and st[2] not in ("0",)
				self.alive = False
				sim.record("trxcon-term", cause=ev[1], after=rsp[:60])
				if not refused:
					self.bad("trxcon.response-not-accepted", ["C05"], cause=ev[1], response=rsp[:200], request=line[:80])
				else:
					self.probe("trxcon-terminated-on-refusal")
			elif k == "fsm_violation":
				self.bad("trxcon.fsm-violation", ["C05"], text=" ".join(ev[1:])[:120])
			elif k == "inst_freed":
				self.alive = False

	def fire(self, g):
		if g != self.timer_gen or not self.alive:
			return
		self.probe("trxcon-retransmission")
		self.sim.record("trxcon-timer")
		# the link is fault-free and fake_trx answers at once: a retransmission means that a
		# response was not sent, or was not accepted as the answer to the pending command
		self.bad("trxcon.retransmission", ["C05"], pending=self.state().get("ctrl_head"))
		self.request("timer")

	def state(self):
		out = {}
		if self.crashed:
			return out
		try:
			for ev in self.proc.request("state"):
				if len(ev) >= 2:
					out[ev[0]] = ev[1]
		except tp.Crashed:
			self.crashed = True
		return out

	# ---- datagrams from fake_trx towards trxcon -----------------------------------------
	def rx(self, iface, data):
		if not self.alive:
			return
		if iface == "ctrl":
			self.last_rsp = data.decode("latin-1")
			self.cur_datagram = None
		else:
			self.cur_datagram = data
		self.request("rx %s %s" % (iface, tp.hexs(data) if data else "-"))

	def on_burst_ind(self, ev):
		self.probe("trxcon-burst-ind")
		data = getattr(self, "cur_datagram", None)
		if data is None:
			self.bad("trxcon.burst-ind", ["C10"], why="indication without a datagram")
			return
		try:
			d = rc.dec_rx(data)
		except ValueError:
			self.bad("trxcon.burst-ind", ["C10"], why="indication for a malformed datagram")
			return
		if d["ver"] != 0:
			self.bad("trxcon.burst-ind", ["C10"], why="indication for a TRXDv%d datagram" % d["ver"])
			return
		body = d["body"][:148]
		want_bits = bytes(((-127 if b == 255 else 127 - b) & 0xff) for b in body)
		got = (int(ev[1]), int(ev[2]), int(ev[3]), int(ev[4]), tp.unhex(ev[5]) if len(ev) > 5 and ev[5] != "-" else b"")
		want = (d["fn"], d["tn"], d["rssi"], d["toa256"], want_bits)
		if got != want:
			diff = [n for n, g, w in zip(("fn", "tn", "rssi", "toa256", "sbits"), got, want) if g != w]
			self.bad("trxcon.burst-ind", ["C10"], differs=diff, got=[str(x)[:40] for x in got[:4]], want=[str(x)[:40] for x in want[:4]])

	# ---- plan operations ----------------------------------------------------------------
	def do_cmd(self, line):
		if not self.alive:
			self.probe("trxcon-op-skipped")
			return
		parts = line.split(" ")
		if parts[1] == "MEASURE":
			self.pending_meas.append(int(parts[2]))
		self.request(line)

	def do_burst(self, op, cur_fn):
		if not self.alive:
			return
		import random
		r = random.Random(op["bseed"])
		bits = bytes(r.getrandbits(1) for _ in range(op["n"]))
		fn = (cur_fn + op["adv"]) % HYPER
		self.request("burst_req %d %d %d %s" % (fn, op["tn"], op["pwr"], tp.hexs(bits)))

	def finish(self):
		if self.alive and not self.crashed:
			st = self.state()
			if st.get("ctrl_queue") not in (None, "0"):
				self.bad("trxcon.command-unanswered", ["C05"], queue=st.get("ctrl_queue"), head=st.get("ctrl_head"))
		return self.viols
