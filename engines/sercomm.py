# Engine `sercomm` (property C06): two real sercomm.c instances -- node H compiled with
# -DHOST_BUILD (osmocon's configuration, 2048 octet receive buffer) and node T in the target
# configuration (256 octets, interrupt lock, uart_irq_enable) -- joined by two simulated UART
# directions H->T and T->H.  The simulator is the wire and the interrupt source.
#
# Special DLCIs (read off sercomm.c / sercomm.h; see also DESIGN.md section 6):
#   128 (SC_DLCI_ECHO)  sercomm_init() registers sercomm_sendmsg() itself as its handler on
#        *both* builds, so one frame on DLCI 128 ping-pongs between the nodes for ever; never
#        generated, never registered (the slot is taken anyway: -EBUSY).
#   >= 129 (_SC_DLCI_MAX)  outside the queue array; sercomm_sendmsg() has no range check, the
#        caller contract excludes them; never generated, skipped at execution.
#   126 (== 0x7E)  after an over-long frame the receiver takes the closing flag for an opening
#        one and then reads the next frame's opening flag as the address octet: the lost
#        follower is dispatched to DLCI 126.  That is the documented price of an over-long
#        frame (the follower is a don't-care), so no handler is ever registered on 126.
#   0, 125, 126 as *destination*: the transmitter escapes the address octet like any other
#        octet (00, 7D, 7E need escaping), the receiver stores the address octet unescaped.
#        A frame sent to one of these DLCIs is not delivered to its handler.  This looks like a
#        genuine defect (reported separately); by default the generator steers around it
#        (config.avoid contains "addr-octet-escape", cf. DESIGN 3.3) -- set
#        VERIF_SERCOMM_NOAVOID=addr-octet-escape to include those DLCIs, every violation of such
#        a run then carries the signature "C06/addr-octet-escape".
# Noise directly after an over-long frame: the receiver is then waiting for an address octet,
#   so flag-free noise is taken for address/control/payload and the next opening flag
#   dispatches a bogus frame; two real frames are lost instead of one.  Also steered around by
#   default ("noise-after-overlong"), same switch, signature "C06/noise-after-overlong".

import ctypes
import json
import os
import random
import re
import shutil

import _ctypes

from sim import cbuild
from sim.runner import Result, rng_for, digest_of

FLAG = 0x7E
ESC = 0x7D
CTRL_UI = 0x03
NEED_ESC = (0x7E, 0x7D, 0x00)
SPECIALS = (0x7E, 0x7D, 0x00, 0x5E, 0x5D, 0x20)
BUFSIZE = {"H": 2048, "T": 256}
DLCI_MAX = 129            # _SC_DLCI_MAX
DLCI_ECHO = 128
ADDR_ESC_DLCIS = (0, 125, 126)
NS_PER_OCTET = 86_806     # 115200 baud, 8N1
WIRE_BUDGET = 40 * 1024
WIRE_HARD_LIMIT = 56 * 1024
MAX_OVERLONG = 3
DIRS = {"HT": ("H", "T"), "TH": ("T", "H")}
AVOID_ALL = ("addr-octet-escape", "noise-after-overlong")

_ESC_TABLE = {}
for _b in range(256):
	_ESC_TABLE[_b] = bytes([ESC, _b ^ 0x20]) if _b in NEED_ESC else bytes([_b])


def hdlc_encode(dlci, payload):
	"""Reference encoder, written from the frame description in the property statement:
	flag, address, control 0x03, payload, flag; 7E/7D/00 between the flags are replaced by
	7D followed by the octet with bit 5 inverted."""
	t = _ESC_TABLE
	return b"\x7e" + b"".join([t[b] for b in bytes([dlci, CTRL_UI]) + payload]) + b"\x7e"


def expand_payload(spec):
	"""Payload descriptor -> bytes.  {"x": hex} is literal; {"n","s","b"} is expanded
	deterministically: b=0 uniform, 1 half specials, 2 only 7E/7D/00, 3 filler with special
	first and last octet, 4 one special octet repeated, 5 plain filler."""
	if "x" in spec:
		return bytes.fromhex(spec["x"])
	n = int(spec["n"])
	s = int(spec.get("s", 0))
	b = int(spec.get("b", 0))
	if n <= 0:
		return b""
	r = random.Random(s)
	if b == 0:
		return r.randbytes(n)
	if b == 1:
		raw = r.randbytes(n)
		sel = r.randbytes(n)
		return bytes([SPECIALS[x % 6] if m < 128 else x for x, m in zip(raw, sel)])
	if b == 2:
		return bytes([NEED_ESC[x % 3] for x in r.randbytes(n)])
	if b == 3:
		body = bytearray(b"A" * n)
		body[0] = NEED_ESC[s % 3]
		body[-1] = NEED_ESC[(s // 3) % 3]
		return bytes(body)
	if b == 4:
		return bytes([SPECIALS[s % 6]]) * n
	return b"A" * n


def _spec_for(rng, n):
	if n <= 24:
		b = rng.choice([0, 1, 1, 2, 3, 4]) if n else 0
		return {"x": expand_payload({"n": n, "s": rng.getrandbits(32), "b": b}).hex()}
	return {"n": n, "s": rng.getrandbits(32), "b": rng.choice([0, 0, 1, 1, 2, 3, 4])}


def wire_cost(payload, dlci=1):
	"""Octets on the wire for one frame: two flags, address, control, payload, escapes."""
	return 4 + len(payload) + sum(payload.count(bytes([x])) for x in NEED_ESC) + (dlci in NEED_ESC)


class Violation(Exception):
	def __init__(self, clause, **detail):
		Exception.__init__(self, clause)
		self.clause = clause
		self.detail = detail


class HarnessError(RuntimeError):
	pass


# ---------------------------------------------------------------------- C side ---------
class Node:
	"""One freshly mapped copy of a sercomm shared object."""

	def __init__(self, kind, path):
		self.kind = kind
		self.lib = lib = ctypes.CDLL(path)
		self.extra_copy = None
		if lib.hx_fresh() != 0:
			# the object was still mapped (should not happen): use a private copy
			_ctypes.dlclose(lib._handle)
			Node._serial += 1
			self.extra_copy = "%s.%d.%d.so" % (path[:-3], os.getpid(), Node._serial)
			shutil.copyfile(path, self.extra_copy)
			self.lib = lib = ctypes.CDLL(self.extra_copy)
			if lib.hx_fresh() != 0:
				raise HarnessError("cannot obtain a fresh sercomm instance")
		c_int = ctypes.c_int
		lib.hx_pull.argtypes = [ctypes.c_char_p, c_int, ctypes.POINTER(c_int)]
		lib.hx_rx_feed.argtypes = [ctypes.c_char_p, c_int, ctypes.c_uint32]
		lib.hx_sendmsg.argtypes = [c_int, ctypes.c_char_p, c_int]
		lib.hx_log_ptr.restype = ctypes.c_void_p
		lib.hx_irq_ptr.restype = ctypes.c_void_p
		lib.hx_panic_msg.restype = ctypes.c_char_p
		lib.hx_mem_msg.restype = ctypes.c_char_p
		self.buf = ctypes.create_string_buffer(8192)
		self.idle = c_int(0)
		self.fed = 0
		self.armed_seen = 0
		if lib.hx_init() != 1:
			raise HarnessError("sercomm_init failed on node %s" % kind)

	_serial = 0

	def close(self):
		lib = self.lib
		self.lib = None
		if lib is not None:
			lib.hx_fini()
			_ctypes.dlclose(lib._handle)
		if self.extra_copy:
			try:
				os.unlink(self.extra_copy)
			except OSError:
				pass

	def pull(self, k):
		"""-> (octets, idle)"""
		out = bytearray()
		idle = False
		lib = self.lib
		while k > 0:
			m = min(k, 8192)
			n = lib.hx_pull(self.buf, m, ctypes.byref(self.idle))
			if n < 0:
				break
			out += self.buf.raw[:n]
			k -= n
			if self.idle.value or n < m:
				idle = bool(self.idle.value)
				break
		return bytes(out), idle

	def feed(self, octets):
		"""-> list of (pos, dlci, payload) callbacks"""
		lib = self.lib
		lib.hx_rx_feed(octets, len(octets), self.fed)
		self.fed += len(octets)
		n = lib.hx_log_len()
		if not n:
			return []
		raw = ctypes.string_at(lib.hx_log_ptr(), n)
		lib.hx_log_clear()
		out = []
		i = 0
		while i < n:
			pos = int.from_bytes(raw[i:i + 4], "little")
			dlci = raw[i + 4]
			ln = raw[i + 5] | (raw[i + 6] << 8)
			out.append((pos, dlci, raw[i + 7:i + 7 + ln]))
			i += 7 + ln
		return out

	def health(self, deep=False):
		"""Clause (iv): panic flag, lock balance, msgb sanity, guard zones."""
		lib = self.lib
		if lib.hx_panicked():
			# no addresses, no process ids: the record must be identical on replay
			msg = re.sub(r"0x[0-9a-fA-F]+", "0x?", lib.hx_panic_msg().decode("latin1"))
			msg = re.sub(r"==\d+==|={8,}|\s+", " ", msg)
			raise Violation("C06.panic", node=self.kind, msg=msg.strip()[:160])
		if lib.hx_lock_errors() or lib.hx_lock_depth():
			raise Violation("C06.lock-imbalance", node=self.kind, errors=lib.hx_lock_errors(),
				depth=lib.hx_lock_depth())
		if lib.hx_msg_errors():
			raise Violation("C06.msgb-inconsistent", node=self.kind, count=lib.hx_msg_errors())
		if lib.hx_log_overflowed():
			raise HarnessError("receive log overflow")
		if deep and lib.hx_mem_check():
			raise Violation("C06.memory-corruption", node=self.kind, msg=lib.hx_mem_msg().decode("latin1"))


# ---------------------------------------------------------------------- model ----------
class Frame:
	__slots__ = ("idx", "dlci", "payload", "overlong", "raw", "registered", "dontcare", "wire")

	def __init__(self, idx, dlci, payload, overlong, raw, registered):
		self.idx = idx
		self.dlci = dlci
		self.payload = payload
		self.overlong = overlong
		self.raw = raw
		self.registered = registered
		self.dontcare = False
		self.wire = None


class Direction:
	"""Queue model of the sender, position on the wire, expectations of the receiver."""

	def __init__(self, name, snd, rcv, registered):
		self.name = name
		self.snd = snd
		self.rcv = rcv
		self.registered = registered
		self.queues = {}          # dlci -> [Frame] FIFO
		self.queued = 0
		self.cur = None           # frame in transmission
		self.off = 0              # octets of cur.wire already pulled
		self.after_overlong = False
		self.closed = []          # shape of every frame that went over the wire
		self.wire_octets = 0

	def enqueue(self, f):
		self.queues.setdefault(f.dlci, []).append(f)
		self.queued += 1

	def pick(self):
		if not self.queued:
			return None
		d = min(k for k, q in self.queues.items() if q)
		f = self.queues[d].pop(0)
		self.queued -= 1
		return f

	def remaining_wire(self):
		n = 0
		if self.cur is not None:
			n += len(self.cur.wire) - self.off
		for q in self.queues.values():
			for f in q:
				n += wire_cost(f.payload, f.dlci)
		return n


def classify_tx_mismatch(d, actual, expected_frame):
	"""The pulled octets `actual` (from the start of a frame) differ from the reference
	encoding of the frame the model expects.  Walk them with the wire grammar of clause (i)
	and name the first thing that is wrong."""
	f = expected_frame
	want = bytes([f.dlci, CTRL_UI]) + f.payload
	base = {"dir": d.name, "frame": f.idx, "dlci": f.dlci, "len": len(f.payload)}
	if actual[0] != FLAG:
		return Violation("C06.wire-grammar", what="frame does not open with a flag", got=actual[0], **base)
	# clause (ii): do the octets fit another message that is waiting instead?
	ref = hdlc_encode(f.dlci, f.payload)
	j = next((x for x in range(min(len(actual), len(ref))) if actual[x] != ref[x]), min(len(actual), len(ref)))
	for k in sorted(d.queues):
		for g in d.queues[k]:
			other = hdlc_encode(g.dlci, g.payload)
			n = min(len(actual), len(other))
			if n > j and actual[:n] == other[:n]:
				return Violation("C06.priority", sent_frame=g.idx, sent_dlci=g.dlci, queued_dlcis=sorted(
					x for x, q in d.queues.items() if q)[:8], what="frame of another DLCI started"
					if g.dlci != f.dlci else "not the head of the DLCI's queue (FIFO)", **base)
	content = bytearray()
	esc = False

	def content_mismatch(i):
		got = content[i]
		if i == 0:
			others = sorted(k for k, q in d.queues.items() if q)
			if got in others:
				return Violation("C06.priority", what="frame of another DLCI started",
					got_dlci=got, want_dlci=f.dlci, queued_dlcis=others[:8], **base)
			return Violation("C06.wire-content", what="address octet differs", got=got, **base)
		if i == 1:
			return Violation("C06.wire-grammar", what="control octet is not 0x03", got=got, **base)
		for g in d.queues.get(f.dlci, []):
			if (bytes([g.dlci, CTRL_UI]) + g.payload)[:len(content)] == bytes(content):
				return Violation("C06.priority", what="not the head of the DLCI's queue (FIFO)",
					sent_frame=g.idx, **base)
		return Violation("C06.wire-content", what="payload octet differs", index=i - 2, got=got,
			want=want[i], **base)

	for pos in range(1, len(actual)):
		c = actual[pos]
		if esc:
			if c not in (0x5E, 0x5D, 0x20):
				return Violation("C06.wire-grammar", what="escape followed by an illegal octet", got=c,
					wire_offset=pos, **base)
			content.append(c ^ 0x20)
			esc = False
		elif c == ESC:
			esc = True
			continue
		elif c == FLAG:
			if len(content) < len(want) and want[len(content)] == FLAG:
				return Violation("C06.wire-grammar", what="unescaped flag octet inside the frame",
					wire_offset=pos, **base)
			if len(content) < 2:
				return Violation("C06.wire-grammar", what="frame closed before address and control",
					wire_offset=pos, **base)
			return Violation("C06.wire-content", what="frame closed early", got_len=len(content) - 2, **base)
		elif c == 0x00:
			return Violation("C06.wire-grammar", what="unescaped zero octet inside the frame",
				wire_offset=pos, **base)
		else:
			content.append(c)
		i = len(content) - 1
		if i >= len(want):
			return Violation("C06.wire-content", what="frame continues past the end of the message",
				extra=c, **base)
		if content[i] != want[i]:
			return content_mismatch(i)
	# every octet decodes to the right content, so the encoding itself must differ
	return Violation("C06.wire-grammar", what="octet escaped that needs no escaping, or encoding differs",
		got=bytes(actual[-8:]).hex(), **base)


# ---------------------------------------------------------------------- one run --------
class Run:
	def __init__(self, engine, plan):
		self.plan = plan
		cfg = plan.get("config", {})
		self.avoid = set(cfg.get("avoid", AVOID_ALL))
		self.nodes = {"H": Node("H", engine.paths["H"]), "T": Node("T", engine.paths["T"])}
		self.dirs = {}
		self.log = []
		self.probes = {}
		self.faults = {}
		self.taint = set()
		self.nframes = 0
		self.delivered = 0
		self.overlong_count = 0
		self.wire_total = 0
		reg = cfg.get("reg", {})
		for name, (s, r) in DIRS.items():
			regset = set()
			for dlci in reg.get(r, []):
				dlci = int(dlci)
				if not 0 <= dlci < DLCI_MAX or dlci == DLCI_ECHO:
					continue
				if dlci in ADDR_ESC_DLCIS:
					if "addr-octet-escape" in self.avoid:
						continue
					self.taint.add("addr-octet-escape")
				if dlci in regset:
					continue
				rc = self.nodes[r].lib.hx_register(dlci)
				if rc != 0:
					raise HarnessError("sercomm_register_rx_cb(%d) = %d" % (dlci, rc))
				regset.add(dlci)
			self.dirs[name] = Direction(name, self.nodes[s], self.nodes[r], regset)
			self.log.append(["reg", r, sorted(regset)])

	def close(self):
		# reverse order of creation: each object restores the signal handlers it found
		for n in reversed(list(self.nodes.values())):
			n.close()

	def probe(self, name, n=1):
		self.probes[name] = self.probes.get(name, 0) + n

	def fault(self, name, n=1):
		self.faults[name] = self.faults.get(name, 0) + n

	# -------------------------------------------------------------- transmit side -------
	def tx_octets(self, d, octets, idle, closings):
		"""Clauses (i) and (ii) on a chunk of pulled octets; appends (position at the
		receiver, frame) to `closings` for every frame completed in the chunk."""
		i = 0
		n = len(octets)
		base = d.rcv.fed
		while i < n:
			f = d.cur
			if f is None:
				f = d.pick()
				if f is None:
					raise Violation("C06.wire-spurious", dir=d.name, what="octets pulled with nothing queued",
						got=octets[i:i + 8].hex())
				if f.wire is None:
					f.wire = hdlc_encode(f.dlci, f.payload)
				d.cur = f
				d.off = 0
			w = f.wire
			m = min(n - i, len(w) - d.off)
			if octets[i:i + m] != w[d.off:d.off + m]:
				raise classify_tx_mismatch(d, w[:d.off] + octets[i:], f)
			i += m
			d.off += m
			if d.off == len(w):
				closings.append((base + i - 1, f))
				d.cur = None
				self.frame_on_wire(d, f)
		d.wire_octets += n
		self.wire_total += n
		if idle and (d.cur is not None or d.queued):
			raise Violation("C06.liveness", dir=d.name, what="transmitter reports idle",
				mid_frame=d.cur is not None, queued=d.queued)

	def frame_on_wire(self, d, f):
		p = f.payload
		if f.overlong:
			self.fault("overlong-frame")
			d.after_overlong = True
		else:
			if d.after_overlong:
				f.dontcare = True
				d.after_overlong = False
			if not p:
				self.probe("empty-payload")
			elif len(p) == BUFSIZE[d.rcv.kind] - 1:
				self.probe("max-len-payload")
		if p:
			if p[-1] in NEED_ESC:
				self.probe("escape-in-last-octet")
			if not p.translate(None, b"\x7e\x7d\x00"):
				self.probe("payload-all-specials")

	# -------------------------------------------------------------- receive side --------
	def rx_octets(self, d, octets, closings):
		"""Clause (iii): feed the octets, then compare the callbacks with the frames whose
		closing flag was among them."""
		got = d.rcv.feed(octets)
		self.log.append(["w", d.name, octets.hex()])
		d.rcv.health()
		for pos, dlci, payload in got:
			self.log.append(["cb", d.name, pos, dlci, payload.hex()])
		gi = 0
		for pos, f in closings:
			if gi < len(got) and got[gi][0] < pos:
				self.spurious(d, got[gi])
			here = []
			while gi < len(got) and got[gi][0] == pos:
				here.append((got[gi][1], got[gi][2]))
				gi += 1
			self.judge_frame(d, f, here)
		if gi < len(got):
			self.spurious(d, got[gi])

	def spurious(self, d, cb):
		raise Violation("C06.delivery-spurious", dir=d.name, what="callback not at the end of any frame",
			dlci=cb[1], len=len(cb[2]), payload=cb[2][:16].hex(), registered=cb[1] in d.registered)

	def judge_frame(self, d, f, here):
		base = {"dir": d.name, "frame": f.idx, "dlci": f.dlci, "len": len(f.payload)}
		want = (f.dlci, f.payload)
		outcome = None
		if f.overlong:
			if here:
				raise Violation("C06.overlong-delivered", got_dlci=here[0][0], got_len=len(here[0][1]), **base)
			outcome = "overlong"
		elif not f.registered:
			if here:
				raise Violation("C06.delivery-spurious", what="frame for an unregistered DLCI caused a callback",
					got_dlci=here[0][0], got_len=len(here[0][1]), **base)
			outcome = "unregistered"
		else:
			if len(here) > 1:
				raise Violation("C06.delivery-duplicate", count=len(here), **base)
			if not here:
				if not f.dontcare:
					raise Violation("C06.delivery-missing", payload=f.payload[:16].hex(), **base)
				self.probe("frame-after-overlong-lost")
				outcome = "lost"
			else:
				if here[0] != want:
					gd, gp = here[0]
					k = next((j for j in range(min(len(gp), len(f.payload))) if gp[j] != f.payload[j]),
						min(len(gp), len(f.payload)))
					raise Violation("C06.delivery-corrupt", got_dlci=gd, got_len=len(gp), first_diff=k,
						got=gp[max(0, k - 2):k + 6].hex(), want=f.payload[max(0, k - 2):k + 6].hex(), **base)
				if f.dontcare:
					self.probe("frame-after-overlong-delivered")
				self.delivered += 1
				outcome = "delivered"
		n = len(f.payload)
		N = BUFSIZE[d.rcv.kind]
		lc = "0" if n == 0 else "1" if n == 1 else "N-1" if n == N - 1 else "N-2" if n == N - 2 else \
			"over" if n >= N else "s" if n <= 16 else "m"
		d.closed.append((lc, outcome))

	# -------------------------------------------------------------- operations ----------
	def transfer(self, d, octets, idle):
		closings = []
		d.snd.health()
		self.tx_octets(d, octets, idle, closings)
		if octets:
			self.rx_octets(d, octets, closings)
		if any(f.overlong for _p, f in closings):
			d.rcv.health(deep=True)

	def op_pump(self, d, k):
		if self.wire_total >= WIRE_HARD_LIMIT:
			return
		octets, idle = d.snd.pull(k)
		if idle:
			self.log.append(["idle", d.name])
		self.transfer(d, octets, idle)

	def op_pumpf(self, d):
		"""Pump up to the end of the frame in transmission (or of the next one)."""
		if d.cur is not None:
			k = len(d.cur.wire) - d.off
		elif d.queued:
			f = d.queues[min(x for x, q in d.queues.items() if q)][0]
			k = wire_cost(f.payload, f.dlci)
		else:
			k = 1
		self.op_pump(d, k)

	def op_send(self, node, dlci, payload, irq):
		dname = "HT" if node == "H" else "TH"
		d = self.dirs[dname]
		if not 0 <= dlci < DLCI_MAX or dlci == DLCI_ECHO:
			return
		if dlci in ADDR_ESC_DLCIS:
			if "addr-octet-escape" in self.avoid:
				return
			self.taint.add("addr-octet-escape")
		overlong = len(payload) >= BUFSIZE[d.rcv.kind]
		if overlong and self.overlong_count >= MAX_OVERLONG:
			return
		if len(payload) > 60000 or self.wire_total + sum(x.remaining_wire() for x in self.dirs.values()) \
				+ wire_cost(payload, dlci) > WIRE_HARD_LIMIT:
			return
		if overlong:
			self.overlong_count += 1
		f = Frame(self.nframes, dlci, payload, overlong, False, dlci in d.registered)
		self.nframes += 1
		if any(q and k > dlci for k, q in d.queues.items()):
			self.probe("priority-inversion-opportunity")
		lib = d.snd.lib
		self.log.append(["send", node, dlci, len(payload)])
		if node == "T":
			irq = [max(0, min(1000, int(x))) for x in (list(irq or ()) + [0, 0, 0])[:3]]
			lib.hx_set_irq(*irq)
			rc = lib.hx_sendmsg(dlci, payload, len(payload))
			if rc == -12:
				raise HarnessError("out of memory")
			d.snd.health()
			got = [lib.hx_irq_got(i) for i in range(3)]
			octets = ctypes.string_at(lib.hx_irq_ptr(), sum(got)) if sum(got) else b""
			closings = []
			# point 0 lies before the message is on its queue, points 1 and 2 after it
			self.tx_octets(d, octets[:got[0]], False, closings)
			d.enqueue(f)
			d.rcv.fed += got[0]     # positions of the second part continue behind the first
			self.tx_octets(d, octets[got[0]:], False, closings)
			d.rcv.fed -= got[0]
			armed = lib.hx_uart_armed()
			if lib.hx_uart_bad() or armed != d.snd.armed_seen + 1:
				raise Violation("C06.tx-irq-not-armed", node=node, armed=armed - d.snd.armed_seen,
					bad_calls=lib.hx_uart_bad())
			d.snd.armed_seen = armed
			if octets:
				self.probe("irq-pull-inside-sendmsg", len(octets))
				self.rx_octets(d, octets, closings)
				if any(x.overlong for _p, x in closings):
					d.rcv.health(deep=True)
		else:
			rc = lib.hx_sendmsg(dlci, payload, len(payload))
			if rc == -12:
				raise HarnessError("out of memory")
			d.snd.health()
			d.enqueue(f)
		depth = lib.hx_depth(dlci)
		self.log.append(["depth", node, dlci, depth])

	def op_noise(self, d, octets):
		octets = octets.replace(b"\x7e", b"")
		if not octets or d.cur is not None:
			return
		if d.after_overlong:
			if "noise-after-overlong" in self.avoid:
				return
			self.taint.add("noise-after-overlong")
		self.fault("inter-frame-noise")
		self.log.append(["noise", d.name])
		self.wire_total += len(octets)
		d.wire_octets += len(octets)
		self.rx_octets(d, octets, [])

	def op_overlong_raw(self, d, dlci, payload):
		"""A well-formed over-long frame put on the wire by the simulator, between frames."""
		if len(payload) < BUFSIZE[d.rcv.kind] or self.overlong_count >= MAX_OVERLONG:
			return
		if not 0 <= dlci < 256 or (dlci in ADDR_ESC_DLCIS and "addr-octet-escape" in self.avoid):
			return
		if self.wire_total + wire_cost(payload, dlci) > WIRE_HARD_LIMIT:
			return
		if d.cur is not None:
			self.op_pump(d, len(d.cur.wire) - d.off)
			if d.cur is not None:
				return
		self.overlong_count += 1
		f = Frame(self.nframes, dlci, payload, True, True, dlci in d.registered)
		self.nframes += 1
		f.wire = hdlc_encode(dlci, payload)
		self.log.append(["raw", d.name, dlci, len(payload)])
		self.frame_on_wire(d, f)
		self.wire_total += len(f.wire)
		d.wire_octets += len(f.wire)
		self.rx_octets(d, f.wire, [(d.rcv.fed + len(f.wire) - 1, f)])
		d.rcv.health(deep=True)

	def drain(self):
		"""Clause (v): after the last operation both directions are pumped until both
		transmitters report idle; the bound is what the model says is still to come."""
		for _round in range(2):
			for name in ("HT", "TH"):
				d = self.dirs[name]
				bound = d.remaining_wire() + 8
				while True:
					octets, idle = d.snd.pull(min(bound, 8192))
					if idle:
						self.log.append(["idle", d.name])
					self.transfer(d, octets, idle)
					bound -= len(octets)
					if idle:
						break
					if bound <= 0 or not octets:
						raise Violation("C06.liveness", dir=d.name, what="transmitter does not become idle",
							queued=d.queued, mid_frame=d.cur is not None)
		for name in ("HT", "TH"):
			d = self.dirs[name]
			if d.cur is not None or d.queued:
				raise Violation("C06.liveness", dir=d.name, what="frames left behind", queued=d.queued)
			for dlci in range(DLCI_MAX):
				if d.snd.lib.hx_depth(dlci):
					raise Violation("C06.liveness", dir=d.name, what="queue not empty after drain", dlci=dlci)
		for n in self.nodes.values():
			n.health(deep=True)
			if n.lib.hx_rx_resets():
				self.probe("overflow-reset", n.lib.hx_rx_resets())

	def run_ops(self):
		for op in self.plan.get("ops", []):
			o = op.get("op")
			if o == "send" or (o == "overlong" and op.get("how", "tx") == "tx"):
				node = op.get("node") or DIRS[op["dir"]][0]
				self.op_send(node, int(op["dlci"]), expand_payload(op["p"]), op.get("irq"))
			elif o == "overlong":
				self.op_overlong_raw(self.dirs[op["dir"]], int(op["dlci"]), expand_payload(op["p"]))
			elif o == "pump":
				self.op_pump(self.dirs[op["dir"]], max(0, min(int(op.get("k", 1)), WIRE_HARD_LIMIT)))
			elif o == "pumpf":
				self.op_pumpf(self.dirs[op["dir"]])
			elif o == "noise":
				self.op_noise(self.dirs[op["dir"]], bytes.fromhex(op.get("x", "")))
		self.drain()


# ---------------------------------------------------------------------- engine ---------
class SercommEngine:
	name = "sercomm"

	def __init__(self):
		self.paths = None

	def setup(self):
		R = cbuild.repo_path
		cs = os.path.join(cbuild.CSRC, "sercomm")
		asan = os.environ.get("VERIF_SERCOMM_ASAN") == "1"
		if asan and "asan" not in os.environ.get("LD_PRELOAD", ""):
			raise RuntimeError("VERIF_SERCOMM_ASAN=1 needs LD_PRELOAD=$(gcc -print-file-name=libasan.so) "
				"(and ASAN_OPTIONS=halt_on_error=0:detect_leaks=0 to turn reports into violations)")
		srcs = [R("src", "target", "firmware", "comm", "sercomm.c"),
			R("src", "shared", "libosmocore", "src", "msgb.c"),
			R("src", "shared", "libosmocore", "src", "talloc.c"),
			os.path.join(cs, "harness.c")]
		inc = [os.path.join(cs, "shim"), R("src", "shared", "libosmocore", "include")]
		common = ["-Wl,-Bsymbolic"]
		if asan:
			common += ["-DHX_NOWRAP", "-fsanitize-recover=address"]
		else:
			common += ["-Wl,--wrap=malloc,--wrap=free,--wrap=realloc,--wrap=calloc"]
		paths = {}
		# H: what osmocon's Makefile.am does (-I firmware/include/comm -DHOST_BUILD)
		paths["H"] = cbuild.build_so("sercomm_H", srcs, cflags=common + ["-DHOST_BUILD"], includes=inc,
			idirafter=[R("src", "target", "firmware", "include", "comm")], sanitize=asan)
		# T: firmware include directory behind the system's, so that only <debug.h>, <uart.h>,
		# <comm/sercomm.h> come from it and <asm/system.h> from the shim
		paths["T"] = cbuild.build_so("sercomm_T", srcs, cflags=common, includes=inc,
			idirafter=[R("src", "target", "firmware", "include")], sanitize=asan)
		self.paths = paths
		# smoke test: both load, are fresh, and report the buffer sizes the oracle assumes
		for kind in ("H", "T"):
			n = Node(kind, paths[kind])
			try:
				if n.lib.hx_rx_bufsize() != BUFSIZE[kind]:
					raise RuntimeError("unexpected build kind for node %s" % kind)
			finally:
				n.close()

	# ------------------------------------------------------------------ generate ------
	def generate(self, seed, prop, tier):
		rng = rng_for(seed, "plan")
		thorough = tier == "thorough"
		noavoid = set(x for x in os.environ.get("VERIF_SERCOMM_NOAVOID", "").split(",") if x)
		# known findings (known_findings.json): most runs steer around their triggers so that the
		# rest of the space is still explored; a seeded ~6 % each keep hitting them so that the
		# KNOWN-FINDING line is earned on every check run, never assumed (DESIGN.md 3.3)
		r_avoid = rng.random()
		if r_avoid < 0.06:
			noavoid.add("addr-octet-escape")
		elif r_avoid < 0.12:
			noavoid.add("noise-after-overlong")
		avoid = [a for a in AVOID_ALL if a not in noavoid]
		max_frames = rng.choice([5, 20, 40, 60] if thorough else [3, 8, 20, 40])
		dirs = rng.choice([["HT"], ["TH"], ["HT", "TH"], ["HT", "TH"]])
		fk = {k: rng.random() < 0.5 for k in ("noise", "overlong-tx", "overlong-raw", "irq")}
		if rng.random() < 0.25:
			fk = dict.fromkeys(fk, False)       # fault-free profile
		# DLCI pool: few DLCIs so that queues build up behind each other
		interesting = [1, 2, 3, 4, 5, 9, 10, 11, 32, 93, 94, 124, 127]
		if "addr-octet-escape" not in avoid:
			interesting += [0, 125, 126, 0, 125]
		pool = set()
		for _ in range(rng.choice([1, 2, 2, 3, 4, 6, 10])):
			d = rng.choice(interesting) if rng.random() < 0.7 else rng.randrange(1, 128)
			if d in ADDR_ESC_DLCIS and "addr-octet-escape" in avoid:
				continue
			pool.add(d)
		pool = sorted(pool) or [5]
		p_reg = rng.choice([1.0, 1.0, 0.8, 0.5])
		reg = {}
		for node in ("H", "T"):
			reg[node] = [d for d in pool if rng.random() < p_reg and (d != 126 or "addr-octet-escape" not in avoid)]
		len_profile = rng.choice(["tiny", "edge", "mixed", "mixed", "uniform"])
		pump_profile = rng.choice(["single", "small", "large", "mixed", "mixed"])
		w_send = rng.choice([1, 2, 4])
		w_pump = rng.choice([1, 2, 4])
		ops = []
		frames = 0
		overlong = 0
		budget = WIRE_BUDGET

		def length(N):
			r = rng.random()
			if len_profile == "tiny":
				return rng.choice([0, 1, 2, 3, rng.randrange(0, 9)])
			if len_profile == "edge" or (len_profile == "mixed" and r < 0.35):
				return rng.choice([0, 1, N - 2, N - 1, N - 1, N - 3])
			if len_profile == "uniform" or r > 0.8:
				return rng.randrange(0, N)
			return rng.randrange(0, 17)

		def pump_k():
			if pump_profile == "single":
				return rng.choice([1, 1, 1, 2, 3])
			if pump_profile == "small":
				return rng.randrange(1, 12)
			if pump_profile == "large":
				return rng.choice([50, 300, 3000])
			return rng.choice([1, 2, 3, 5, 10, 50, 300, 3000])

		def irq():
			if not fk["irq"] or rng.random() < 0.5:
				return None
			return [rng.choice([0, 0, 1, 2, 5, 300]) for _ in range(3)]

		backlog = 0
		if rng.random() < (0.05 if thorough else 0.03):
			# a long backlog: hundreds of tiny messages queued before the driver pulls the first
			# octet (counters of queued messages narrower than the backlog show here)
			dname = rng.choice(dirs)
			snd, rcv = DIRS[dname]
			backlog = rng.choice([255, 256, 256, 257, 300, 511, 512, 513])
			for i in range(backlog):
				spec = _spec_for(rng, rng.choice([0, 0, 1, 2]))
				ops.append({"op": "send", "node": snd, "dlci": rng.choice(pool), "p": spec})
				budget -= wire_cost(expand_payload(spec))
				if i in (254, 255, 256) and rng.random() < 0.3:
					ops.append({"op": "pump", "dir": dname, "k": rng.choice([1, 2, 7])})
			ops.append({"op": "pumpf", "dir": dname})
		guard = 0
		while frames < max_frames and budget > 64 and guard < 1000:
			guard += 1
			dname = rng.choice(dirs)
			snd, rcv = DIRS[dname]
			N = BUFSIZE[rcv]
			acts = ["send"] * (3 * w_send) + ["pump"] * (3 * w_pump) + ["pumpf"]
			if fk["noise"]:
				acts += ["noise"] * 2
			if (fk["overlong-tx"] or fk["overlong-raw"]) and overlong < MAX_OVERLONG:
				acts += ["overlong"]
			a = rng.choice(acts)
			if a == "send":
				n = length(N)
				spec = _spec_for(rng, n)
				cost = wire_cost(expand_payload(spec))
				if cost > budget:
					spec = _spec_for(rng, rng.randrange(0, 9))
					cost = wire_cost(expand_payload(spec))
				op = {"op": "send", "node": snd, "dlci": rng.choice(pool), "p": spec}
				if snd == "T":
					q = irq()
					if q:
						op["irq"] = q
				ops.append(op)
				budget -= cost
				frames += 1
			elif a == "pump":
				ops.append({"op": "pump", "dir": dname, "k": pump_k()})
			elif a == "pumpf":
				ops.append({"op": "pumpf", "dir": dname})
			elif a == "noise":
				n = rng.choice([1, 1, 2, 3, 8, 20])
				x = bytes(rng.choice([rng.choice([0x7D, 0x00, 0x03, 0x5E, 0x5D, 0x20, rng.choice(pool)]),
					rng.randrange(256)]) for _ in range(n)).replace(b"\x7e", b"\x7f")
				ops.append({"op": "noise", "dir": dname, "x": x.hex()})
			else:
				n = rng.choice([N, N, N + 1, N + 2, N + rng.randrange(3, 300), 2 * N - 1, 2 * N, 2 * N + 1]
					+ ([511, 512, 2047, 2048, 2049] if rcv == "T" else []))
				spec = {"n": n, "s": rng.getrandbits(32), "b": rng.choice([0, 0, 1, 2, 3, 4, 5])}
				cost = wire_cost(expand_payload(spec))
				if cost > budget:
					continue
				how = "tx" if fk["overlong-tx"] and (not fk["overlong-raw"] or rng.random() < 0.6) else "raw"
				op = {"op": "overlong", "dir": dname, "dlci": rng.choice(pool), "p": spec, "how": how}
				if how == "tx" and snd == "T":
					q = irq()
					if q:
						op["irq"] = q
				ops.append(op)
				budget -= cost
				frames += 1
				overlong += 1
		return {"engine": "sercomm", "seed": seed,
			"config": {"reg": reg, "avoid": avoid,
				"profile": {"len": len_profile, "pump": pump_profile, "backlog": backlog,
					"faults": sorted(k for k, v in fk.items() if v)}},
			"ops": ops}

	def simplify(self, plan):
		def clone():
			return json.loads(json.dumps(plan))
		ops = plan.get("ops", [])
		for i, op in enumerate(ops):
			if "irq" in op:
				p = clone()
				del p["ops"][i]["irq"]
				yield p
			if op.get("op") == "overlong" and op.get("how") == "tx":
				p = clone()
				p["ops"][i]["how"] = "raw"
				yield p
			if op.get("op") == "pump" and op.get("k", 1) > 1:
				for k in (1, op["k"] // 2):
					if 0 < k < op["k"]:
						p = clone()
						p["ops"][i]["k"] = k
						yield p
			if op.get("op") == "noise" and len(op.get("x", "")) > 2:
				p = clone()
				p["ops"][i]["x"] = op["x"][:2]
				yield p
			if "p" in op:
				pay = expand_payload(op["p"])
				n = len(pay)
				lo = 0
				if op.get("op") == "overlong":
					lo = BUFSIZE[DIRS[op["dir"]][1]] if "dir" in op else 256
				cands = []
				for m in (lo, lo + 1, n // 2, n - 1):
					if lo <= m < n and m not in cands:
						cands.append(m)
				for m in cands:
					p = clone()
					p["ops"][i]["p"] = {"x": pay[:m].hex()}
					yield p
				if n and pay != b"A" * n:
					p = clone()
					p["ops"][i]["p"] = {"n": n, "s": 0, "b": 5}
					yield p
					# keep only the octets that need escaping
					q = bytes(b if b in NEED_ESC else 0x41 for b in pay)
					if q != pay:
						p = clone()
						p["ops"][i]["p"] = {"x": q.hex()}
						yield p
		reg = plan.get("config", {}).get("reg", {})
		for node in ("H", "T"):
			for d in reg.get(node, []):
				p = clone()
				p["config"]["reg"][node].remove(d)
				yield p

	# ------------------------------------------------------------------ execute -------
	def execute(self, plan, prop, choices=None):
		if self.paths is None:
			self.setup()
		res = Result()
		run = Run(self, plan)
		viols = []
		try:
			try:
				run.run_ops()
			except Violation as v:
				viols.append({"clause": v.clause, "detail": v.detail, "owners": ["C06"]})
				# a panic or a trampled guard zone explains whatever was seen first
				for n in run.nodes.values():
					try:
						n.health(deep=True)
					except Violation as v2:
						if v2.clause != v.clause:
							viols.append({"clause": v2.clause, "detail": v2.detail, "owners": ["C06"]})
			if viols and run.taint:
				for v in viols:
					v["signature"] = "C06/" + "+".join(sorted(run.taint))
			for n in run.nodes.values():
				run.log.append(["end", n.kind, n.lib.hx_rx_resets(), n.lib.hx_lock_calls(), n.lib.hx_uart_armed(),
					n.lib.hx_mem_live()])
		finally:
			run.close()
		wire = sum(d.wire_octets for d in run.dirs.values())
		res.violations = viols
		res.faults = dict(run.faults)
		res.probes = dict(run.probes)
		res.steps = wire
		res.sim_ns = wire * NS_PER_OCTET
		res.choices = None
		run.log.append(["viol", [v["clause"] for v in viols]])
		res.digest = digest_of(run.log)
		shape = [[name, d.closed[:60]] for name, d in sorted(run.dirs.items())]
		res.signature = digest_of([sorted(res.faults), sorted(res.probes), shape,
			[len(d.registered) for _n, d in sorted(run.dirs.items())]])
		res.nontrivial = run.delivered >= 1
		return res


ENGINE = SercommEngine()
