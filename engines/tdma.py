# Engine `tdma` (property C08): the real firmware TDMA scheduler (tdma_sched.c, plus
# sched_gsmtime.c as one more caller) inside a C harness that plays sync.c: it owns `l1s`,
# delivers the frame interrupt (execute, one-shot events, advance) and provides 16 logging
# callbacks which may schedule follow-ups or reset the scheduler from inside execute.
#
# A plan is a flat list of operations; every operation is executed against the C code and,
# in lock step, against a reference model written from the property statement and the
# comments of tdma_sched.h: absolute frame number -> list of items.  DESIGN.md §5/C08.

import ctypes
import json
import os

from sim.runner import Result, rng_for, digest_of
from sim import cbuild

NB = 25            # scheduler depth (frames)
NCB = 8            # capacity of one frame
NCBFN = 16         # distinct callbacks in the harness
FRAME_NS = 4_615_000
FATAL_RC = -70000
MAX_OPS = 400
MAX_SET_FRAMES = 6
MAX_SET_ITEMS = 4

R_CB, R_FU_SCHED, R_FU_RESET, R_FU_SET, R_SPY, R_EXEC_DONE, R_FRAME = range(7)
REC = 8

FATAL_NAMES = {
	1: ("C08.ring-corrupt", "ring state invalid before the call"),
	2: ("C08.ring-corrupt", "a schedule call reported success on a full bucket or grew the ring inconsistently"),
	3: ("C08.ring-corrupt", "ring state invalid after the call (num_items > 8, cur_bucket moved or >= 25, a bucket shrank)"),
	4: ("C08.crash", "signal inside the code under test"),
	5: ("C08.runaway-execute", "more than 64 callbacks in one execute"),
	6: ("C08.ring-corrupt", "schedule reported success but no bucket of the ring took the item"),
}

P8 = (0, 1, 2, 127, 128, 254, 255)
P16 = (0, 1, 255, 256, 32767, 32768, 65534, 65535)
PRIO_EDGE = (-32768, -32767, -1, 0, 1, 32766, 32767)


def _i16(v):
	v = int(v)
	return max(-32768, min(32767, v))


# ---------------------------------------------------------------------- model ----------
class It:
	__slots__ = ("cb", "p1", "p2", "p3", "prio", "opt", "fly", "src")

	def __init__(self, cb, p1, p2, p3, prio, src, fly=False, opt=False):
		self.cb = cb
		self.p1 = p1
		self.p2 = p2
		self.p3 = p3
		self.prio = prio
		self.src = src
		self.fly = fly
		self.opt = opt

	def look(self):
		return (self.cb, self.p1, self.p2, self.p3)

	def show(self):
		return {"cb": self.cb, "p1": self.p1, "p2": self.p2, "p3": self.p3, "prio": self.prio,
			"from_op": self.src, "optional": self.opt, "on_the_fly": self.fly}


class Fr:
	"""Items of one absolute frame.  lo..hi bound the number of slots in use: equal unless a
	don't-care event (reset with items in the current frame, set overflow after a placed
	prefix, frame advanced over without execute) left the fate of the `opt` items open."""
	__slots__ = ("items", "lo", "hi")

	def __init__(self):
		self.items = []
		self.lo = 0
		self.hi = 0


class HarnessError(RuntimeError):
	pass


class _Run:
	def __init__(self, lib, plan):
		self.L = lib
		self.plan = plan
		self.now = 0          # absolute frame = number of advances so far
		self.pos = 0          # ring position, for probes only
		self.frames = {}
		self.armed = {}       # cb -> follow-up request
		self.sets = {}        # slot -> set definition
		self.next_slot = 0
		self.dirty = False
		self.viols = []
		self.obs = []
		self.shape = []
		self.faults = {}
		self.probes = {}
		self.hist = {}        # look -> what happened to items looking like this (hints only)
		self.n_sched = 0
		self.n_ran = 0
		self.n_adv = 0
		self.steps = 0
		self.opidx = -1
		self.in_drain = False

	# -- bookkeeping
	def bad(self, clause, **detail):
		if clause == "C08.harness":  # cannot be caused by the code under test
			raise HarnessError("tdma harness inconsistent at op %s: %r" % (self.opidx, detail))
		detail["op_index"] = self.opidx if not self.in_drain else "drain"
		detail["frame"] = self.now
		if len(self.viols) < 3:
			self.viols.append({"clause": clause, "detail": detail, "owners": ["C08"]})

	def probe(self, name, n=1):
		self.probes[name] = self.probes.get(name, 0) + n

	def fault(self, name, n=1):
		self.faults[name] = self.faults.get(name, 0) + n

	def note(self, it, what):
		h = self.hist.setdefault(it.look(), [])
		if len(h) < 4:
			h.append(what)

	def frame(self, f):
		fr = self.frames.get(f)
		if fr is None:
			fr = self.frames[f] = Fr()
		return fr

	def fatal(self):
		st = self.L.state
		code = st[26]
		clause, text = FATAL_NAMES.get(code, ("C08.ring-corrupt", "harness guard %d" % code))
		self.bad(clause, guard=text, signal=st[30], cur_bucket=st[0], occupancy=list(st[1:26]))

	# -- model: tdma_schedule
	def m_schedule(self, off, cb, p1, p2, p3, prio, rc, in_cb):
		f = self.now + off
		fr = self.frame(f)
		if fr.lo >= NCB:
			want = -1
		elif fr.hi < NCB:
			want = 0
		else:
			want = None
			self.probe("capacity-unknown")
		if rc not in (0, -1) or (want is not None and rc != want):
			self.bad("C08.rc-schedule", got=rc, want=want, offset=off, in_callback=in_cb,
				frame_holds=[i.show() for i in fr.items][:9], slots_used=[fr.lo, fr.hi])
			return
		if rc == 0:
			if want is None:
				fr.hi = min(fr.hi, NCB - 1)
			fly = in_cb and off == 0
			fr.items.append(It(cb, p1, p2, p3, prio, self.opidx, fly=fly))
			fr.lo += 1
			fr.hi += 1
			self.n_sched += 1
			if self.pos + off >= NB:
				self.probe("ring-wrap")
			if fly:
				self.probe("on-the-fly-add")
			if off == NB - 1:
				self.probe("offset-24")
		else:
			if want is None:
				fr.lo = max(fr.lo, NCB)
			self.fault("bucket-overflow")
			self.probe("overflow-rejected")

	# -- model: tdma_schedule_set
	def m_set(self, off, sdef, p3, rc, in_cb, who="set"):
		frames_ = sdef["frames"]
		nadv = max(0, len(frames_) - 1 + (1 if sdef.get("trail", 1) else 0)) if frames_ else 0
		placed = []
		state = "ok"
		touched = set()
		for k, fitems in enumerate(frames_):
			f = self.now + off + k
			for e in fitems:
				fr = self.frame(f)
				if state == "ok":
					if fr.lo >= NCB:
						state = "overflow"
						break
					if fr.hi >= NCB:
						self.probe("capacity-unknown")
						if rc >= 0:
							fr.hi = NCB - 1
						else:
							state = "maybe"
				it = It(e[0], e[1], e[2], p3, e[3], self.opidx, fly=(in_cb and f == self.now))
				if state == "ok":
					fr.items.append(it)
					fr.lo += 1
					fr.hi += 1
					placed.append((it, fr))
					touched.add(f)
					if self.pos + off + k >= NB:
						self.probe("ring-wrap")
				else:  # maybe: beyond a point where the set may already have failed
					it.opt = True
					fr.items.append(it)
					fr.hi = min(NCB, fr.hi + 1)
					self.dirty = True
			if state == "overflow":
				break
		if state == "ok":
			if rc != nadv:
				self.bad("C08.rc-set", got=rc, want=nadv, offset=off, caller=who, set=sdef)
				return
			self.n_sched += len(placed)
			if len(touched) >= 2:
				self.probe("set-multi-frame")
			if any(it.fly for it, _ in placed):
				self.probe("on-the-fly-add")
		else:
			if rc != -1:
				self.bad("C08.rc-set", got=rc, want=-1, offset=off, caller=who, set=sdef)
				return
			self.fault("bucket-overflow")
			self.probe("overflow-rejected")
			if placed:
				self.probe("set-overflow-prefix")
			for it, fr in placed:  # don't-care: the prefix may stay or be rolled back
				it.opt = True
				fr.lo -= 1
				self.dirty = True

	# -- model: reset (main context or from inside a callback)
	def m_reset(self, in_cb):
		for f in list(self.frames):
			if f != self.now:
				for it in self.frames[f].items:
					self.note(it, "erased by reset in frame %d (was due in %d)" % (self.now, f))
				del self.frames[f]
		fr = self.frames.get(self.now)
		if fr is not None and fr.items:
			for it in fr.items:
				it.opt = True
			fr.lo = 0
			self.probe("reset-with-items-in-current-frame")
			if not in_cb:
				self.dirty = True
		elif fr is not None:
			fr.lo = 0
		self.fault("reset-in-callback" if in_cb else "reset")

	# -- model: advance
	def m_advance(self):
		fr = self.frames.pop(self.now, None)
		self.now += 1
		self.n_adv += 1
		self.pos = (self.pos + 1) % NB
		if fr is not None and fr.items:
			# don't-care: the frame was never executed; the ring keeps its items in the slot
			# that becomes frame now+24
			nf = self.frame(self.now + NB - 1)
			for it in fr.items:
				it.opt = True
				it.fly = False
				self.note(it, "left in frame %d which was advanced over" % (self.now - 1))
				nf.items.append(it)
			nf.lo = 0
			nf.hi = fr.hi
			self.dirty = True
			self.probe("skipped-nonempty-frame")

	# -- model: one execute, replayed from the harness log
	def m_exec(self, recs, rc_ret):
		"""recs: log records of one h_execute/h_frame.  Returns number of callbacks."""
		fr = self.frames.get(self.now)
		if fr is None:
			fr = self.frames[self.now] = Fr()
		npre = len(fr.items)
		if npre == NCB:
			self.probe("full-bucket-8")
		prios = [i.prio for i in fr.items]
		if len(set(prios)) < len(prios):
			self.probe("equal-priority")
		if prios != sorted(prios):
			self.probe("sort-needed")
		ran = 0
		last_prio = None
		last_pre = None
		fly_ran = None
		ran_opt_looks = set()
		done = False
		pending_fu = None
		for r in recs:
			kind = r[0]
			if self.viols:
				return ran
			if kind == R_CB:
				if done:
					self.bad("C08.harness", why="callback after execute returned")
					return ran
				if pending_fu is not None:
					self.bad("C08.harness", why="armed follow-up did not fire", fu=pending_fu)
				ran += 1
				look = (r[1], r[2], r[3], r[4])
				best = None
				for it in fr.items:
					if it.look() != look:
						continue
					if best is None:
						best = it
					elif (it.fly, it.prio) < (best.fly, best.prio):
						best = it
				if best is None:
					self.unexpected(look, fr)
					return ran
				fr.items.remove(best)
				self.n_ran += 1
				self.note(best, "ran in frame %d" % self.now)
				if best.opt:
					ran_opt_looks.add(look)
				if best.fly:
					fly_ran = best
				else:
					if fly_ran is not None:
						self.bad("C08.on-the-fly-order", ran=best.show(), after_on_the_fly_item=fly_ran.show())
						return ran
					if last_prio is not None and best.prio < last_prio:
						self.bad("C08.priority-order", ran=best.show(), after=last_pre.show())
						return ran
					last_prio = best.prio
					last_pre = best
				pending_fu = self.armed.pop(r[1], None)
			elif kind == R_FU_SCHED:
				if pending_fu is None or pending_fu["k"] != "sched":
					self.bad("C08.harness", why="unexpected follow-up record", rec=list(r))
					return ran
				pending_fu = None
				self.probe("follow-up-fired")
				self.m_schedule(r[1], r[2], r[3], r[4], r[5], r[6], r[7], True)
			elif kind == R_FU_SET:
				if pending_fu is None or pending_fu["k"] != "set":
					self.bad("C08.harness", why="unexpected follow-up record", rec=list(r))
					return ran
				pending_fu = None
				self.probe("follow-up-fired")
				self.m_set(r[1], self.sets[r[2]], r[3], r[4], True, who="callback")
			elif kind == R_FU_RESET:
				if pending_fu is None or pending_fu["k"] != "reset":
					self.bad("C08.harness", why="unexpected follow-up record", rec=list(r))
					return ran
				pending_fu = None
				self.m_reset(True)
			elif kind == R_EXEC_DONE:
				done = True
				if pending_fu is not None:
					self.bad("C08.harness", why="armed follow-up did not fire", fu=pending_fu)
					return ran
				for it in fr.items:
					if it.opt:
						self.note(it, "optional, not run in frame %d" % self.now)
						continue
					if it.look() in ran_opt_looks:
						continue  # indistinguishable from an optional item that did run
					self.bad("C08.missed-run", item=it.show(), ran_callbacks=ran,
						history=self.hist.get(it.look()))
					return ran
				del self.frames[self.now]
				if r[1] != ran:
					self.bad("C08.rc-execute", got=r[1], callbacks_run=ran)
					return ran
				if r[2] != 0:
					self.bad("C08.bucket-not-empty", num_items_after_execute=r[2], callbacks_run=ran)
					return ran
				if ran == 0:
					self.probe("execute-empty-frame")
			elif kind == R_SPY:
				if not done:
					self.bad("C08.harness", why="one-shot event before execute returned")
					return ran
				self.probe("gsmtime-fired")
				sdef = self.sets.get(r[2])
				if sdef is None:
					self.bad("C08.harness", why="one-shot event with unknown set", rec=list(r))
					return ran
				self.m_set(r[1], sdef, r[3], r[4], False, who="sched_gsmtime")
			elif kind == R_FRAME:
				pass
		if not done and not self.viols:
			self.bad("C08.harness", why="no end-of-execute record")
		return ran

	def unexpected(self, look, fr):
		hint = "never scheduled with these parameters"
		detail = {}
		for f, other in sorted(self.frames.items()):
			if f == self.now:
				continue
			for it in other.items:
				if it.look() == look:
					hint = "scheduled for another frame"
					detail = {"due_in_frame": f, "item": it.show()}
					break
			if detail:
				break
		if not detail and look in self.hist:
			hint = "not pending any more"
			detail = {"history": self.hist[look]}
		if not detail:
			for it in fr.items:
				if it.cb == look[0]:
					hint = "same callback pending in this frame with other parameters"
					detail = {"item": it.show()}
					break
		self.bad("C08.unexpected-run", ran={"cb": look[0], "p1": look[1], "p2": look[2], "p3": look[3]},
			hint=hint, pending_here=[i.show() for i in fr.items][:8], **detail)

	# -- settle don't-care regions from the observed slot counts
	def collapse(self):
		st = self.L.state
		occ = st[1:26]
		for f in sorted(self.frames):
			fr = self.frames[f]
			d = f - self.now
			if d < 0 or d >= NB:
				self.bad("C08.harness", why="model frame outside the ring window", f=f)
				return
			if fr.lo == fr.hi:
				continue
			a = occ[d]
			if not (fr.lo <= a <= fr.hi):
				self.bad("C08.slot-count", frame_offset=d, slots_in_use=a, allowed=[fr.lo, fr.hi],
					items=[i.show() for i in fr.items][:9])
				return
			ndef = sum(1 for i in fr.items if not i.opt)
			nopt = len(fr.items) - ndef
			if a >= ndef + nopt:
				for i in fr.items:
					if i.opt:
						i.opt = False
				self.probe("dont-care-kept")
			elif a <= ndef:
				for i in fr.items:
					if i.opt:
						self.note(i, "optional, dropped (slot count)")
				fr.items = [i for i in fr.items if not i.opt]
				self.probe("dont-care-dropped")
			fr.lo = fr.hi = a
			if not fr.items and a == 0:
				del self.frames[f]
		self.dirty = False

	def pending(self):
		return any(fr.items for fr in self.frames.values())

	# -- operations against the C code
	def read_log(self):
		n = self.L.log_n.value
		buf = self.L.log[0:n * REC]
		return [tuple(buf[i:i + REC]) for i in range(0, n * REC, REC)]

	def define_set(self, sdef):
		slot = self.next_slot
		if slot >= self.L.nslot:
			return None
		flat = []
		frames_ = sdef["frames"]
		trail = sdef.get("trail", 1)
		for k, fitems in enumerate(frames_):
			for e in fitems:
				flat += [0, e[0], e[1], e[2], e[3], e[4], e[5]]
			if k != len(frames_) - 1 or trail:
				flat += [1, 0, 0, 0, 0, 0, 0]
		n = len(flat) // 7
		arr = (ctypes.c_int32 * max(1, len(flat)))(*flat)
		if self.L.h_set_define(slot, n, arr) != 0:
			return None
		self.next_slot += 1
		self.sets[slot] = sdef
		return slot

	def after_call(self, rc):
		if rc <= FATAL_RC:
			if rc == FATAL_RC:
				self.fatal()
			else:
				self.bad("C08.harness", why="wrapper refused the call", rc=rc)
			return False
		return True

	def op_frame(self, bare_exec=False):
		L = self.L
		rc = L.h_execute() if bare_exec else L.h_frame()
		self.steps += 1
		recs = self.read_log()
		self.obs.append(["x" if bare_exec else "f", rc, recs, list(L.state[0:26])])
		if not self.after_call(rc):
			return
		ran = self.m_exec(recs, rc)
		self.shape.append(("x" if bare_exec else "f", min(ran, 9)))
		if self.viols:
			return
		if not bare_exec:
			self.m_advance()
		if self.dirty:
			self.collapse()

	def do_op(self, op):
		L = self.L
		k = op.get("op")
		if k == "sched":
			off, cb, p1, p2, p3, prio = norm_sched(op)
			rc = L.h_schedule(off, cb, p1, p2, p3, prio)
			self.steps += 1
			self.obs.append(["s", off, cb, p1, p2, p3, prio, rc])
			self.shape.append(("s", rc))
			if not self.after_call(rc):
				return
			self.m_schedule(off, cb, p1, p2, p3, prio, rc, False)
		elif k == "set":
			sdef = norm_set(op.get("set"))
			off = norm_set_off(op.get("off", 0), sdef)
			p3 = int(op.get("p3", 0)) & 0xffff
			slot = self.define_set(sdef)
			if slot is None:
				return
			rc = L.h_schedule_set(off, slot, p3)
			self.steps += 1
			self.obs.append(["S", off, sdef, p3, rc])
			self.shape.append(("S", min(rc, 1), len(sdef["frames"])))
			if not self.after_call(rc):
				return
			self.m_set(off, sdef, p3, rc, False)
			if self.dirty and not self.viols:
				self.collapse()
		elif k == "frame":
			for _ in range(max(1, min(60, int(op.get("n", 1))))):
				self.op_frame()
				if self.viols:
					return
		elif k == "exec":
			self.op_frame(bare_exec=True)
		elif k == "adv":
			rc = L.h_advance()
			self.steps += 1
			self.obs.append(["a", rc, list(L.state[0:26])])
			self.shape.append(("a",))
			if not self.after_call(rc):
				return
			self.fault("missed-frame-interrupt")
			self.m_advance()
			if self.dirty:
				self.collapse()
		elif k == "reset":
			rc = L.h_reset()
			self.steps += 1
			self.obs.append(["r", rc, list(L.state[0:26])])
			self.shape.append(("r",))
			if not self.after_call(rc):
				return
			self.m_reset(False)
			if self.dirty:
				self.collapse()
		elif k == "arm":
			cb = int(op.get("cb", 0)) % NCBFN
			fu = op.get("fu") or {}
			fk = fu.get("k")
			if fk == "sched":
				off, cb2, p1, p2, p3, prio = norm_sched(fu)
				L.h_arm(cb, 1, off, cb2, p1, p2, p3, prio, 0)
				self.armed[cb] = {"k": "sched"}
				self.obs.append(["A", cb, 1, off, cb2, p1, p2, p3, prio])
			elif fk == "set":
				sdef = norm_set(fu.get("set"))
				off = norm_set_off(fu.get("off", 0), sdef)
				p3 = int(fu.get("p3", 0)) & 0xffff
				slot = self.define_set(sdef)
				if slot is None:
					return
				L.h_arm(cb, 3, off, 0, 0, 0, p3, 0, slot)
				self.armed[cb] = {"k": "set"}
				self.obs.append(["A", cb, 3, off, sdef, p3])
			elif fk == "reset":
				L.h_arm(cb, 2, 0, 0, 0, 0, 0, 0, 0)
				self.armed[cb] = {"k": "reset"}
				self.obs.append(["A", cb, 2])
			else:
				return
			self.steps += 1
			self.shape.append(("A", fk))
		elif k == "gsmtime":
			sdef = norm_set(op.get("set"), max_frames=5)
			slot = self.define_set(sdef)
			if slot is None:
				return
			dfn = max(0, min(200, int(op.get("dfn", 2))))
			p3 = int(op.get("p3", 0)) & 0xffff
			rc = L.h_gsmtime(slot, dfn, p3)
			self.steps += 1
			self.obs.append(["g", dfn, sdef, p3, rc])
			self.shape.append(("g", rc))
			self.after_call(rc)

	def go(self):
		L = self.L
		cfg = self.plan.get("config", {})
		start = int(cfg.get("start_bucket", 0)) % NB
		L.h_init(int(cfg.get("start_fn", 0)) % 2_000_000)
		for _ in range(start):
			L.h_advance()
		self.pos = start
		if L.state[26] or any(L.state[1:26]):
			self.bad("C08.ring-corrupt", why="ring not empty after init and %d advances" % start,
				occupancy=list(L.state[1:26]))
			return
		for i, op in enumerate(self.plan.get("ops", [])[:MAX_OPS]):
			self.opidx = i
			self.do_op(op)
			if self.viols:
				return
		# drain: every slot of the ring is executed at least once more, and every item still
		# owed gets its frame (follow-ups may add more; they are consumed once each)
		self.in_drain = True
		n = 0
		limit = int(cfg.get("drain_max", NB * (NCBFN + 2)))
		while (n < NB or self.pending()) and n < limit and not self.viols:
			self.op_frame()
			n += 1
		if not self.viols and self.pending():
			left = [i.show() for fr in self.frames.values() for i in fr.items][:5]
			self.bad("C08.harness", why="drain limit reached with items pending", left=left)


def norm_sched(d):
	return (int(d.get("off", 0)) % NB, int(d.get("cb", 0)) % NCBFN, int(d.get("p1", 0)) & 0xff,
		int(d.get("p2", 0)) & 0xff, int(d.get("p3", 0)) & 0xffff, _i16(d.get("prio", 0)))


def norm_set(s, max_frames=MAX_SET_FRAMES):
	s = s or {}
	frames_ = []
	for fitems in (s.get("frames") or [[]])[:max_frames]:
		out = []
		for e in list(fitems)[:MAX_SET_ITEMS]:
			e = list(e) + [0] * 6
			out.append([int(e[0]) % NCBFN, int(e[1]) & 0xff, int(e[2]) & 0xff, _i16(e[3]),
				int(e[4]) & 0xffff, int(e[5]) & 0xffff])
		frames_.append(out)
	if not frames_:
		frames_ = [[]]
	return {"frames": frames_, "trail": 1 if s.get("trail", 1) else 0}


def norm_set_off(off, sdef):
	"""The last frame of a set must stay below the scheduler depth (precondition of C08)."""
	off = int(off) % NB
	return min(off, NB - len(sdef["frames"]))


# ---------------------------------------------------------------------- library --------
class _Lib:
	def __init__(self, path):
		lib = ctypes.CDLL(path)
		self.lib = lib
		i = ctypes.c_int
		for name, n in (("h_init", 1), ("h_schedule", 6), ("h_schedule_set", 3), ("h_execute", 0),
				("h_advance", 0), ("h_frame", 0), ("h_reset", 0), ("h_arm", 9), ("h_gsmtime", 3),
				("h_sizes", 1)):
			fn = getattr(lib, name)
			fn.argtypes = [i] * n
			fn.restype = i
			setattr(self, name, fn)
		lib.h_set_define.argtypes = [i, i, ctypes.c_void_p]
		lib.h_set_define.restype = i
		self.h_set_define = lib.h_set_define
		if lib.h_sizes(0) != NB or lib.h_sizes(1) != NCB:
			raise RuntimeError("tdma_sched.h: %d frames x %d items, the property speaks of %d x %d"
				% (lib.h_sizes(0), lib.h_sizes(1), NB, NCB))
		self.nslot = lib.h_sizes(2)
		self.log = (ctypes.c_int32 * (lib.h_sizes(4) * REC)).in_dll(lib, "h_log")
		self.log_n = ctypes.c_int32.in_dll(lib, "h_log_n")
		self.state = (ctypes.c_int32 * 32).in_dll(lib, "h_state")


# ---------------------------------------------------------------------- engine ---------
class TdmaEngine:
	name = "tdma"

	def __init__(self):
		self._lib = None

	def setup(self):
		fw = cbuild.repo_path("src", "target", "firmware")
		src = os.path.join(cbuild.CSRC, "tdma")
		gsmtime = os.path.join(fw, "layer1", "sched_gsmtime.c")
		so = cbuild.build_so("tdma_c08",
			[os.path.join(src, "harness.c"), os.path.join(src, "gsmtime_wrap.c"),
				os.path.join(fw, "layer1", "tdma_sched.c")],
			cflags=["-std=gnu99", '-DSCHED_GSMTIME_C="%s"' % gsmtime],
			includes=[os.path.join(src, "shim")],
			idirafter=[os.path.join(fw, "include"),
				cbuild.repo_path("src", "shared", "libosmocore", "include")])
		self._lib = _Lib(so)

	def lib(self):
		if self._lib is None:
			self.setup()
		return self._lib

	# ------------------------------------------------------------------ generate ------
	def generate(self, seed, prop, tier):
		rng = rng_for(seed, "plan")
		thorough = tier == "thorough"
		if thorough:
			max_ops = rng.choice([10, 30, 80, 150, 220, 300])
		else:
			max_ops = rng.choice([8, 20, 40, 80, 120])
		fault_free = rng.random() < 0.25
		en = {k: rng.random() < 0.55 for k in ("set", "exec", "arm_sched", "arm_set", "gsmtime", "setburst")}
		for k in ("adv", "reset", "arm_reset", "burst"):
			en[k] = (not fault_free) and rng.random() < 0.5
		if fault_free:
			en["setburst"] = False
		w = {"sched": rng.choice([2, 4, 8]), "frame": rng.choice([1, 2, 4, 8]),
			"set": 2 if en["set"] else 0, "exec": 0.5 if en["exec"] else 0,
			"adv": rng.choice([0.2, 0.7]) if en["adv"] else 0,
			"reset": rng.choice([0.1, 0.4]) if en["reset"] else 0,
			"arm_sched": 1 if en["arm_sched"] else 0, "arm_set": 0.6 if en["arm_set"] else 0,
			"arm_reset": 0.3 if en["arm_reset"] else 0,
			"burst": rng.choice([0.2, 0.6]) if en["burst"] else 0,
			"setburst": 0.3 if en["setburst"] else 0,
			"gsmtime": 0.6 if en["gsmtime"] else 0}
		kinds = [k for k in w if w[k] > 0]
		weights = [w[k] for k in kinds]
		prio_mode = rng.choice(["equal", "few", "few", "edge", "random", "mixed"])
		prio_base = rng.choice(PRIO_EDGE + (rng.randint(-32768, 32767),))
		prio_few = [rng.choice(PRIO_EDGE + (rng.randint(-32768, 32767),)) for _ in range(rng.choice([2, 3]))]
		off_mode = rng.choice(["any", "any", "near", "far", "fixed", "ends"])
		off_fixed = rng.randrange(NB)
		cb_pool = rng.sample(range(NCBFN), rng.choice([2, 4, 16]))
		frame_n_max = rng.choice([1, 1, 3, 10, 30])

		def prio():
			m = prio_mode if prio_mode != "mixed" else rng.choice(["equal", "few", "edge", "random"])
			if m == "equal":
				return prio_base
			if m == "few":
				return rng.choice(prio_few)
			if m == "edge":
				return rng.choice(PRIO_EDGE)
			return rng.randint(-32768, 32767)

		def offset():
			if off_mode == "near":
				return rng.randrange(0, 4)
			if off_mode == "far":
				return rng.randrange(20, NB)
			if off_mode == "fixed":
				return off_fixed
			if off_mode == "ends":
				return rng.choice([0, 1, 23, 24])
			return rng.randrange(NB)

		def p8():
			return rng.choice(P8) if rng.random() < 0.3 else rng.randrange(256)

		def p16():
			return rng.choice(P16) if rng.random() < 0.3 else rng.randrange(65536)

		def sched(off=None, cb=None):
			return {"op": "sched", "off": offset() if off is None else off,
				"cb": rng.choice(cb_pool) if cb is None else cb,
				"p1": p8(), "p2": p8(), "p3": p16(), "prio": prio()}

		def mkset(max_frames=MAX_SET_FRAMES, dense=False):
			nf = rng.randint(1, max_frames)
			frames_ = []
			for _ in range(nf):
				ni = rng.randint(1 if dense else 0, MAX_SET_ITEMS)
				frames_.append([[rng.choice(cb_pool), p8(), p8(), prio(), p16(), rng.choice([0, 0, 3])]
					for _ in range(ni)])
			return {"frames": frames_, "trail": rng.choice([1, 1, 1, 0])}

		def setop(off=None, dense=False):
			s = mkset(dense=dense)
			o = offset() if off is None else off
			return {"op": "set", "off": min(o, NB - len(s["frames"])), "p3": p16(), "set": s}

		ops = []
		while len(ops) < max_ops:
			k = rng.choices(kinds, weights)[0]
			if k == "sched":
				ops.append(sched())
			elif k == "set":
				ops.append(setop())
			elif k == "frame":
				n = rng.randint(1, frame_n_max)
				ops.append({"op": "frame", "n": n} if n > 1 else {"op": "frame"})
			elif k in ("exec", "adv", "reset"):
				ops.append({"op": k})
			elif k == "arm_sched":
				cb = rng.choice(cb_pool)
				fu = sched(off=rng.choice([0, 0, 1, 1, 2, offset()]))
				del fu["op"]
				fu["k"] = "sched"
				ops.append({"op": "arm", "cb": cb, "fu": fu})
				if rng.random() < 0.7:
					ops.append(sched(off=rng.choice([0, 1, 2, offset()]), cb=cb))
			elif k == "arm_set":
				cb = rng.choice(cb_pool)
				s = mkset(max_frames=3)
				o = rng.choice([0, 0, 1, offset()])
				ops.append({"op": "arm", "cb": cb,
					"fu": {"k": "set", "off": min(o, NB - len(s["frames"])), "p3": p16(), "set": s}})
				if rng.random() < 0.7:
					ops.append(sched(off=rng.choice([0, 1, 2, offset()]), cb=cb))
			elif k == "arm_reset":
				cb = rng.choice(cb_pool)
				ops.append({"op": "arm", "cb": cb, "fu": {"k": "reset"}})
				if rng.random() < 0.7:
					o = rng.choice([0, 1, 2])
					for _ in range(rng.choice([0, 1, 3])):
						ops.append(sched(off=o))
					ops.append(sched(off=o, cb=cb))
					for _ in range(rng.choice([0, 1, 3])):
						ops.append(sched(off=o))
			elif k == "burst":
				o = offset()
				for _ in range(rng.choice([8, 8, 9, 9, 10, 12])):
					ops.append(sched(off=o))
			elif k == "setburst":
				j = rng.randint(0, 3)
				o = rng.randrange(j, NB - 6 + j) if off_mode != "fixed" else max(j, min(off_fixed, NB - 7 + j))
				for _ in range(rng.choice([5, 6, 7, 8, 8])):
					ops.append(sched(off=o))
				s = mkset(dense=True)
				while len(s["frames"]) <= j:
					s["frames"].append([[rng.choice(cb_pool), p8(), p8(), prio(), p16(), 0]])
				ops.append({"op": "set", "off": min(o - j, NB - len(s["frames"])), "p3": p16(), "set": s})
			elif k == "gsmtime":
				s = mkset(max_frames=3)
				ops.append({"op": "gsmtime", "dfn": rng.choice([2, 3, 3, 4, 5, 8, 1, 0, rng.randint(2, 40)]),
					"p3": p16(), "set": s})
		ops = ops[:max_ops]
		return {"engine": "tdma", "seed": seed,
			"config": {"start_bucket": rng.choice([0, 1, 23, 24, 24, rng.randrange(NB), rng.randrange(NB)]),
				"start_fn": rng.choice([0, 1, rng.randrange(2_000_000)]),
				"profile": "fault-free" if fault_free else "faults",
				"prio_mode": prio_mode, "offset_mode": off_mode},
			"ops": ops}

	# ------------------------------------------------------------------ simplify ------
	def simplify(self, plan):
		def clone():
			return json.loads(json.dumps(plan))
		cfg = plan.get("config", {})
		for k in ("start_bucket", "start_fn"):
			if cfg.get(k):
				p = clone()
				p["config"][k] = 0
				yield p
		ops = plan.get("ops", [])
		for i, op in enumerate(ops):
			k = op.get("op")
			if k == "frame" and op.get("n", 1) > 1:
				for n in (1, op["n"] // 2, op["n"] - 1):
					if 1 <= n < op["n"]:
						p = clone()
						p["ops"][i]["n"] = n
						yield p
			tgt = op.get("fu") if k == "arm" else op
			if not isinstance(tgt, dict):
				continue
			path = ("fu",) if k == "arm" else ()

			def at(p):
				o = p["ops"][i]
				for s in path:
					o = o[s]
				return o
			for key in ("off", "prio", "p1", "p2", "p3", "dfn"):
				v = tgt.get(key)
				if isinstance(v, int) and v != 0:
					for nv in (0, 1 if v > 1 else None, v // 2 if abs(v) > 3 else None):
						if nv is None or nv == v or (key == "dfn" and nv < 2):
							continue
						p = clone()
						at(p)[key] = nv
						yield p
			s = tgt.get("set")
			if isinstance(s, dict):
				fr = s.get("frames") or []
				for fi in range(len(fr)):
					if len(fr) > 1:
						p = clone()
						del at(p)["set"]["frames"][fi]
						yield p
					for ii in range(len(fr[fi])):
						p = clone()
						del at(p)["set"]["frames"][fi][ii]
						yield p
						e = fr[fi][ii]
						for col in (1, 2, 3, 4, 5):
							if len(e) > col and e[col] != 0:
								p = clone()
								at(p)["set"]["frames"][fi][ii][col] = 0
								yield p

	# ------------------------------------------------------------------ execute -------
	def execute(self, plan, prop, choices=None):
		run = _Run(self.lib(), plan)
		run.go()
		res = Result()
		for v in run.viols:
			v["owners"] = ["C08"]
		res.violations = run.viols
		res.faults = dict(run.faults)
		res.probes = dict(run.probes)
		res.steps = run.steps
		res.sim_ns = run.n_adv * FRAME_NS
		res.choices = None
		res.nontrivial = run.n_sched > 0 and run.n_ran > 0
		res.digest = digest_of([run.obs, [v["clause"] for v in run.viols]])
		cfg = plan.get("config", {})
		res.signature = digest_of([int(cfg.get("start_bucket", 0)) % NB, sorted(run.probes),
			sorted(run.faults), run.shape[:200]])
		return res


ENGINE = TdmaEngine()
