# Engine `dump` (C15, and the capture-file clause of C14): the real DATADumpFile on a
# simulated disk.  A history of appends / reads / reopens is executed, then the durable
# byte stream is cut at crash offsets (every offset for short histories), reopened by a
# fresh DATADumpFile and read back; a reference list of (fields, end_offset) is the model.

import io
import json
import os
import random

from sim.runner import Result, rng_for, digest_of
from sim import toolkit

HYPER = 2715648
MODS = {  # name -> (burst length, tsc_set range)
	"ModGMSK": (148, 4), "Mod8PSK": (444, 2), "ModGMSK_AB": (148, 2),
	"Mod16QAM": (592, 2), "Mod32QAM": (740, 2), "ModAQPSK": (296, 2),
}


# ------------------------------------------------------------------ simulated disk -----
class SimDisk:
	def __init__(self):
		self.files = {}
		self.stats = {"open": 0, "write": 0, "read": 0, "seek": 0}

	def open(self, path, mode="r", *a, **kw):
		self.stats["open"] += 1
		if "b" not in mode:
			raise ValueError("SimDisk supports binary files only (mode %r)" % mode)
		if path not in self.files:
			if mode[0] == "r":
				raise FileNotFoundError(2, "No such file or directory", path)
			self.files[path] = bytearray()
		if mode[0] == "w":
			self.files[path] = bytearray()
		return SimFile(self, path, mode)


class SimFile:
	"""Binary file object over SimDisk with POSIX append semantics for 'a' modes."""

	def __init__(self, disk, path, mode):
		self.disk = disk
		self.path = path
		self.mode = mode
		self.append = mode[0] == "a"
		self.readable_ = mode[0] == "r" or "+" in mode
		self.writable_ = mode[0] in "wa" or "+" in mode
		self.pos = len(disk.files[path]) if self.append else 0
		self.closed = False

	def _buf(self):
		if self.closed:
			raise ValueError("I/O operation on closed file.")
		return self.disk.files[self.path]

	def read(self, n=-1):
		b = self._buf()
		if not self.readable_:
			raise io.UnsupportedOperation("read")
		self.disk.stats["read"] += 1
		if n is None or n < 0:
			n = max(0, len(b) - self.pos)
		out = bytes(b[self.pos:self.pos + n])
		self.pos += len(out)
		return out

	def write(self, data):
		b = self._buf()
		if not self.writable_:
			raise io.UnsupportedOperation("write")
		self.disk.stats["write"] += 1
		data = bytes(data)
		if self.append:
			self.pos = len(b)
		if self.pos > len(b):
			b.extend(bytes(self.pos - len(b)))
		b[self.pos:self.pos + len(data)] = data
		self.pos += len(data)
		return len(data)

	def seek(self, off, whence=0):
		b = self._buf()
		self.disk.stats["seek"] += 1
		if whence == 0:
			p = off
		elif whence == 1:
			p = self.pos + off
		else:
			p = len(b) + off
		if p < 0:
			raise OSError(22, "Invalid argument")
		self.pos = p
		return p

	def tell(self):
		return self.pos

	def readinto(self, buf):
		data = self.read(len(buf))
		buf[:len(data)] = data
		return len(data)

	def readable(self):
		return self.readable_

	def writable(self):
		return self.writable_

	def seekable(self):
		return True

	def truncate(self, size=None):
		b = self._buf()
		size = self.pos if size is None else size
		del b[size:]
		return size

	def fileno(self):
		raise OSError("SimFile has no file descriptor")

	def flush(self):
		pass

	def close(self):
		self.closed = True

	def __enter__(self):
		return self

	def __exit__(self, *a):
		self.close()


# ------------------------------------------------------------------ messages -----------
def gen_msg_desc(rng):
	"""A JSON-able description of one valid TRXD message (either direction)."""
	fn = rng.choice([0, 1, HYPER - 1, rng.randrange(HYPER), rng.randrange(HYPER)])
	tn = rng.randrange(8)
	bseed = rng.randrange(1 << 30)
	if rng.random() < 0.4:
		return {"t": "tx", "ver": rng.choice([0, 1]), "fn": fn, "tn": tn,
			"pwr": rng.choice([0, 255, rng.randrange(256)]), "bl": rng.choice([148, 148, 444]), "bseed": bseed}
	ver = rng.choice([0, 1, 1])
	d = {"t": "rx", "ver": ver, "fn": fn, "tn": tn,
		"rssi": rng.choice([-120, -47, rng.randint(-120, -47)]),
		"toa": rng.choice([-32768, 32767, 0, rng.randint(-32768, 32767)]), "bseed": bseed}
	if ver == 0:
		d["bl"] = rng.choice([148, 148, 444])
	else:
		d["ci"] = rng.choice([-1280, 1280, rng.randint(-1280, 1280)])
		if rng.random() < 0.25:
			d["nope"] = True
		else:
			mod = rng.choice(sorted(MODS))
			d["mod"] = mod
			d["bl"] = MODS[mod][0]
			d["tsc_set"] = rng.randrange(MODS[mod][1])
			d["tsc"] = rng.randrange(8)
	return d


def burst_of(d):
	r = random.Random(d["bseed"])
	n = d["bl"]
	if d["t"] == "tx":
		return [r.getrandbits(1) for _ in range(n)]
	edge = r.random() < 0.2
	return [r.choice([-127, 127, 0, 1, -1]) if edge else r.randint(-127, 127) for _ in range(n)]


def build_msg(d):
	"""Instantiate the toolkit's own message class from a description."""
	from array import array
	dm = toolkit.tk("data_msg")
	if d["t"] == "tx":
		m = dm.TxMsg(fn=d["fn"], tn=d["tn"], ver=d["ver"])
		m.pwr = d["pwr"]
		m.burst = bytearray(burst_of(d))
		return m
	m = dm.RxMsg(fn=d["fn"], tn=d["tn"], ver=d["ver"])
	m.rssi = d["rssi"]
	m.toa256 = d["toa"]
	if d["ver"] >= 1:
		m.ci = d["ci"]
		if d.get("nope"):
			m.nope_ind = True
			m.burst = None
			return m
		m.mod_type = getattr(dm.Modulation, d["mod"])
		m.tsc_set = d["tsc_set"]
		m.tsc = d["tsc"]
	m.burst = array("b", burst_of(d))
	return m


def fields_of_desc(d):
	"""The field values a reader must return for a stored message (the model side)."""
	f = {"cls": "TxMsg" if d["t"] == "tx" else "RxMsg", "ver": d["ver"], "fn": d["fn"], "tn": d["tn"]}
	if d["t"] == "tx":
		f["pwr"] = d["pwr"]
		f["burst"] = burst_of(d)
		return f
	f["rssi"] = d["rssi"]
	f["toa256"] = d["toa"]
	if d["ver"] >= 1:
		f["ci"] = d["ci"]
		f["nope_ind"] = bool(d.get("nope"))
		if d.get("nope"):
			f["burst"] = None
			return f
		f["mod_type"] = d["mod"]
		f["tsc_set"] = d["tsc_set"]
		f["tsc"] = d["tsc"]
	f["burst"] = burst_of(d)
	return f


def fields_of_msg(m, want):
	"""Extract from a parsed message object exactly the fields the model lists."""
	out = {"cls": type(m).__name__}
	for k in want:
		if k == "cls":
			continue
		v = getattr(m, k, "<missing>")
		if k == "burst" and v is not None:
			v = list(v)
		elif k == "mod_type":
			v = getattr(v, "name", v)
		elif k == "nope_ind":
			v = bool(v)
		out[k] = v
	return out


def record_len(d):
	"""Record length per the documented framing: tag + 16-bit length + TRXD message."""
	if d["t"] == "tx":
		return 3 + 6 + d["bl"]
	if d["ver"] == 0:
		return 3 + 8 + d["bl"]
	return 3 + 11 + (0 if d.get("nope") else d["bl"])


# ------------------------------------------------------------------ engine -------------
class DumpEngine:
	name = "dump"

	def setup(self):
		toolkit.tk("data_dump")
		toolkit.tk("data_msg")

	def generate(self, seed, prop, tier):
		rng = rng_for(seed, "plan")
		thorough = tier == "thorough"
		if prop == "C14":
			profile = "rot"
		else:
			profile = "cut"
		size = rng.choice([0, 1, 2, 3, 3, 5, 8, 12] + ([20, 40] if thorough else [16]))
		# a second, unrelated capture handled by the same process while the history runs: what one
		# reader/writer object learns (offsets, sizes, versions) must not leak into another one
		decoy = [gen_msg_desc(rng) for _ in range(rng.choice([1, 2, 3, 6]))] if rng.random() < 0.4 else []
		ops = []
		n = 0
		while n < size:
			r = rng.random()
			if r < 0.55:
				ops.append({"op": "append", "msg": gen_msg_desc(rng)})
				n += 1
			elif r < 0.7:
				k = rng.randint(0, min(4, size - n))
				ops.append({"op": "append_all", "msgs": [gen_msg_desc(rng) for _ in range(k)]})
				n += k
			elif r < 0.85:
				ops.append(self._gen_read(rng, n))
			else:
				ops.append({"op": "reopen", "how": rng.choice(["path", "fileobj", "fileobj-w+b"])})
			if decoy and rng.random() < 0.3:
				ops.append({"op": "decoy_read", "idx": rng.randint(0, len(decoy))})
		for _ in range(rng.choice([0, 1, 3])):
			ops.append(self._gen_read(rng, n))
			if decoy and rng.random() < 0.5:
				ops.append({"op": "decoy_read", "idx": rng.randint(0, len(decoy))})
		cfg = {"profile": profile, "open": rng.choice(["path", "fileobj", "fileobj-w+b"]),
			"cuts": "all" if (size <= (12 if thorough else 5)) else "sample",
			"cut_seed": rng.randrange(1 << 30)}
		if decoy:
			cfg["decoy"] = decoy
		if profile == "rot":
			cfg["rot"] = {"kind": rng.choice(["bitflip", "garbage", "hugelen", "truncate+flip", "tag"]),
				"seed": rng.randrange(1 << 30), "n": rng.choice([1, 1, 2, 8, 64])}
			cfg["cuts"] = "sample"
		return {"engine": "dump", "seed": seed, "config": cfg, "ops": ops}

	@staticmethod
	def _gen_read(rng, n):
		r = rng.random()
		if r < 0.3:
			return {"op": "read_all"}
		if r < 0.6:
			return {"op": "read_idx", "idx": rng.choice([0, max(0, n - 1), n, n + 1, rng.randint(0, n + 2)])}
		return {"op": "read_slice", "skip": rng.choice([None, 0, 1, max(0, n - 1), n, rng.randint(0, n + 1)]),
			"count": rng.choice([None, 1, 2, n or 1, n + 3, rng.randint(1, n + 2)])}

	def simplify(self, plan):
		if plan["config"].get("decoy"):
			p = json.loads(json.dumps(plan))
			del p["config"]["decoy"]
			yield p
			if len(plan["config"]["decoy"]) > 1:
				p = json.loads(json.dumps(plan))
				p["config"]["decoy"] = p["config"]["decoy"][:1]
				yield p
		for i, op in enumerate(plan["ops"]):
			if op["op"] == "append_all" and len(op["msgs"]) > 1:
				p = json.loads(json.dumps(plan))
				p["ops"][i]["msgs"] = op["msgs"][:1]
				yield p

	# ------------------------------------------------------------------ execute -------
	def execute(self, plan, prop, choices=None):
		"""Storage: captures opened BY PATH live on real files in a private scratch directory
		(whatever way the code opens a path — open, io.open, pathlib, os.open — works), captures
		handed over as FILE OBJECTS live on the simulated disk.  The content is carried over at
		every (re)open, so one history can mix both."""
		import gc
		import shutil
		import tempfile
		toolkit.reset()  # fresh module objects: nothing leaks from the previous run of this process
		dd = toolkit.tk("data_dump")
		cfg = plan["config"]
		res = Result()
		disk = SimDisk()
		log = []
		viols = []
		probes = res.probes
		tmpdir = tempfile.mkdtemp(prefix="vp-dump.")
		path = os.path.join(tmpdir, "capture.bin")
		simkey = "/sim/capture.bin"

		def bad(clause, owner, **detail):
			if len(viols) < 4:
				viols.append({"clause": clause, "detail": detail, "owners": [owner]})

		def probe(k, n=1):
			probes[k] = probes.get(k, 0) + n

		toolkit.capture_logs(lambda lvl, fn, msg: None)
		st = {"f": None, "how": None, "content": b"", "fresh": True}

		def close_current():
			"""Let go of the current reader/writer and pick up what it left on its storage."""
			f, how = st["f"], st["how"]
			st["f"] = None
			if f is None:
				return
			if how == "path":
				del f
				with open(path, "rb") as fh:
					st["content"] = fh.read()
			else:
				st["content"] = bytes(disk.files[simkey])

		def opener(how):
			close_current()
			st["how"] = how
			if how == "path":
				with open(path, "wb") as fh:
					fh.write(st["content"])
				st["f"] = dd.DATADumpFile(path)
			else:
				disk.files[simkey] = bytearray(st["content"])
				if how == "fileobj-w+b":  # what the repository's own tests pass in (a TemporaryFile)
					mode = "w+b" if st["fresh"] else "r+b"
				else:
					mode = "a+b"
				st["f"] = dd.DATADumpFile(disk.open(simkey, mode))
			st["fresh"] = False
			return st["f"]

		model = []  # (fields, end_offset)
		unattributed = []  # byte ranges whose inner record boundaries could not be confirmed
		sizes = {}

		def measure(d):
			"""Size of one stored record, measured on a scratch file with the real writer."""
			k = json.dumps(d, sort_keys=True)
			if k not in sizes:
				sp = "/sim/measure.bin"
				disk.files[sp] = bytearray()
				g = dd.DATADumpFile(disk.open(sp, "a+b"))
				g.append_msg(build_msg(d))
				del g
				sizes[k] = len(disk.files[sp])
			return sizes[k]

		end = 0
		confirmed = 0  # file length up to which the measured boundaries were confirmed
		decoy = None
		decoy_model = []
		try:
			if cfg.get("decoy"):
				dk = "/sim/decoy.bin"
				disk.files[dk] = bytearray()
				decoy = dd.DATADumpFile(disk.open(dk, "a+b"))
				e2 = 0
				for d in cfg["decoy"]:
					decoy.append_msg(build_msg(d))
					e2 += measure(d)
					decoy_model.append((fields_of_desc(d), e2))
				if len(disk.files[dk]) == e2:
					for i in range(len(decoy_model) + 1):
						self._check_idx(decoy, decoy_model, i, bad, "second-capture")
				else:
					decoy = None
				probe("second-capture")
			f = opener(cfg["open"])
			for op in plan["ops"]:
				o = op["op"]
				try:
					if o == "append":
						f.append_msg(build_msg(op["msg"]))
						end += measure(op["msg"])
						model.append((fields_of_desc(op["msg"]), end))
					elif o == "append_all":
						f.append_all([build_msg(d) for d in op["msgs"]])
						for d in op["msgs"]:
							end += measure(d)
							model.append((fields_of_desc(d), end))
					elif o == "reopen":
						f = None
						f = opener(op["how"])
						probe("reopen")
						if len(st["content"]) == end:
							confirmed = end
						else:
							unattributed.append((confirmed, max(end, len(st["content"]))))
					elif o == "read_all":
						self._check_all(f, model, None, None, bad, "live")
					elif o == "read_idx":
						self._check_idx(f, model, op["idx"], bad, "live")
					elif o == "read_slice":
						self._check_all(f, model, op["skip"], op["count"], bad, "live")
					elif o == "decoy_read":
						if decoy is not None:
							self._check_idx(decoy, decoy_model, op["idx"], bad, "second-capture")
				except Exception as e:
					bad("C15.raised", "C15", op=o, exc=type(e).__name__, msg=str(e)[:120])
				if viols:
					break
			if decoy is not None and not viols:
				self._check_all(decoy, decoy_model, None, None, bad, "second-capture")
				for i in range(len(decoy_model) + 1):
					self._check_idx(decoy, decoy_model, i, bad, "second-capture")
			decoy = None
			f = None
			close_current()
			data = st["content"]
			if len(data) != end and not viols:
				# the writer's record sizes are not what it produces alone: only whole-file reads
				# and the untouched prefix can be judged
				unattributed.append((confirmed, max(end, len(data))))
				model = [(m, e if e <= confirmed else len(data)) for m, e in model]
			log.append(("final", len(data), len(model)))
			if not viols and cfg["profile"] == "cut":
				self._crash_cuts(dd, disk, data, model, cfg, bad, probe, log, res, viols, unattributed, tmpdir)
			elif not viols and cfg["profile"] == "rot":
				self._rot(dd, disk, data, model, cfg, bad, probe, log, res)
		finally:
			st["f"] = None
			f = None
			shutil.rmtree(tmpdir, ignore_errors=True)
			toolkit.release_logs()
		res.violations = viols
		res.steps = sum(disk.stats.values())
		res.digest = digest_of([log, [v["clause"] for v in viols], disk.stats])
		shape = [(m[0]["cls"], m[0]["ver"], len(m[0]["burst"] or ()), m[0].get("nope_ind")) for m in model]
		res.signature = digest_of([shape, cfg["cuts"], cfg["profile"], [o["op"] for o in plan["ops"]]])
		res.nontrivial = len(model) >= 1 and res.faults.get("crash-cut", 0) + res.faults.get("bit-rot", 0) > 0
		return res

	# -- reads against the model ---------------------------------------------------------
	@staticmethod
	def _cmp(got, want_fields):
		if got is None or got is False:
			return "returned %r instead of a message" % (got,)
		g = fields_of_msg(got, want_fields)
		if g != want_fields:
			diff = [k for k in want_fields if g.get(k) != want_fields[k]]
			return "fields differ: %s" % ", ".join("%s=%r!=%r" % (k, str(g.get(k))[:40], str(want_fields[k])[:40]) for k in diff[:3])
		return None

	def _check_all(self, f, model, skip, count, bad, ctx, upto=None):
		exp = [m for m, e in model if upto is None or e <= upto]
		n = len(exp)
		if skip is None and count is None:
			got = f.parse_all()
		else:
			got = f.parse_all(skip=skip, count=count)
		s = skip or 0
		if s > n:
			if got is not False and got != []:
				bad("C15.slice-beyond-end", "C15", ctx=ctx, skip=skip, count=count, n=n, got=str(got)[:80])
			return
		want = exp[s:] if count is None else exp[s:s + count]
		if got is False or got is None:
			bad("C15.read-failed", "C15", ctx=ctx, skip=skip, count=count, n=n, got=repr(got))
			return
		if len(got) != len(want):
			bad("C15.read-count", "C15", ctx=ctx, skip=skip, count=count, stored=n, got=len(got), want=len(want), cut=upto)
			return
		for i, (g, w) in enumerate(zip(got, want)):
			d = self._cmp(g, w)
			if d:
				bad("C15.read-fields", "C15", ctx=ctx, index=s + i, skip=skip, count=count, what=d, cut=upto)
				return

	def _check_idx(self, f, model, idx, bad, ctx, upto=None):
		exp = [m for m, e in model if upto is None or e <= upto]
		got = f.parse_msg(idx)
		if idx < len(exp):
			d = self._cmp(got, exp[idx])
			if d:
				bad("C15.random-access", "C15", ctx=ctx, idx=idx, stored=len(exp), what=d, cut=upto)
		elif got is not None and got is not False:
			bad("C15.random-access-beyond", "C15", ctx=ctx, idx=idx, stored=len(exp), cut=upto)

	# -- crash cuts ------------------------------------------------------------------------
	def _cut_offsets(self, data, model, cfg):
		n = len(data)
		if cfg["cuts"] == "all":
			return list(range(n + 1)), True
		r = random.Random(cfg["cut_seed"])
		offs = {0, n}
		start = 0
		for _m, e in model:
			for d in range(-3, 4):
				offs.add(e + d)
			for d in range(0, 15):  # record header and TRXD header internals
				offs.add(start + d)
			for _ in range(4):
				if e >= start:
					offs.add(r.randint(start, e))
			start = max(start, e)
		return sorted(o for o in offs if 0 <= o <= n), False

	def _crash_cuts(self, dd, disk, data, model, cfg, bad, probe, log, res, viols, unattributed=(), tmpdir=None):
		offs, exhaustive = self._cut_offsets(data, model, cfg)
		r = random.Random(cfg["cut_seed"] ^ 0x5bd1)
		nrec = len(model)
		bounds = {e for _m, e in model}
		for c in offs:
			if any(a < c < b for a, b in unattributed):
				continue
			p = "/sim/cut.bin"
			if tmpdir is not None and c % 4 == 0:
				# re-opened by path: a real file in the scratch directory
				rp = os.path.join(tmpdir, "cut.bin")
				with open(rp, "wb") as fh:
					fh.write(data[:c])
				f = dd.DATADumpFile(rp)
			else:
				disk.files[p] = bytearray(data[:c])
				f = dd.DATADumpFile(disk.open(p, "a+b"))
			res.faults["crash-cut"] = res.faults.get("crash-cut", 0) + 1
			nexp = sum(1 for _m, e in model if e <= c)
			try:
				self._check_all(f, model, None, None, bad, "cut", upto=c)
				if nrec:
					# random access: every stored index for boundary cuts, a sample otherwise
					idxs = range(nexp + 2) if (c in bounds or r.random() < 0.1) else [r.randint(0, nexp + 1)]
					for i in idxs:
						self._check_idx(f, model, i, bad, "cut", upto=c)
					if c in bounds or r.random() < 0.15:
						sk = r.choice([None, 0, r.randint(0, nexp + 1)])
						cn = r.choice([None, 1, r.randint(1, nexp + 1)])
						self._check_all(f, model, sk, cn, bad, "cut", upto=c)
			except Exception as e:
				bad("C15.raised-after-cut", "C15", cut=c, size=len(data), exc=type(e).__name__, msg=str(e)[:120])
			if c not in bounds and c != 0:
				probe("torn-record")
			log.append(("cut", c, nexp))
			f = None
			if viols:
				break
		if exhaustive:
			probe("all-offsets-history")

	# -- C14: damaged capture files must not raise -----------------------------------------
	def _rot(self, dd, disk, data, model, cfg, bad, probe, log, res):
		rot = cfg["rot"]
		r = random.Random(rot["seed"])
		for trial in range(8):
			b = bytearray(data)
			kind = rot["kind"]
			if kind == "garbage" or not b:
				b = bytearray(r.getrandbits(8) for _ in range(r.choice([0, 1, 2, 3, 4, 7, 64, 600])))
			elif kind == "bitflip":
				for _ in range(rot["n"]):
					i = r.randrange(len(b))
					b[i] ^= 1 << r.randrange(8)
			elif kind == "hugelen":
				starts = [0] + [e for _m, e in model][:-1]
				s = r.choice(starts)
				b[s + 1:s + 3] = bytes([r.choice([0xff, 0x7f, 0]), r.choice([0xff, 0, 1, 5])])
			elif kind == "tag":
				starts = [0] + [e for _m, e in model][:-1]
				s = r.choice(starts)
				b[s] = r.choice([0, 3, 0xff, 2, 1])
			else:
				b = b[:r.randrange(len(b) + 1)]
				if b:
					i = r.randrange(len(b))
					b[i] = r.getrandbits(8)
			p = "/sim/rot.bin"
			disk.files[p] = b
			res.faults["bit-rot"] = res.faults.get("bit-rot", 0) + 1
			f = dd.DATADumpFile(disk.open(p, "a+b"))
			for what, call in (("parse_all", lambda: f.parse_all()),
					("parse_msg", lambda: f.parse_msg(r.randint(0, len(model) + 1))),
					("parse_all-slice", lambda: f.parse_all(skip=r.randint(0, len(model) + 1), count=r.randint(1, 3)))):
				try:
					out = call()
					log.append((what, kind, trial, type(out).__name__, len(out) if isinstance(out, list) else None))
				except Exception as e:
					bad("C14.capture-read-raised", "C14", call=what, kind=kind, exc=type(e).__name__,
						msg=str(e)[:100], signature="C14.capture-read-raised/%s" % type(e).__name__)
					return
			f = None


ENGINE = DumpEngine()
