# Deterministic simulation kernel: virtual time, event heap, baton-passed threads.
#
# One Sim instance = one simulated run.  Simulated threads are real threading.Thread
# objects, but exactly one of them (or the driver) runs at any time: the driver loop in
# Sim.run() hands the baton to one runnable thread and waits until that thread yields
# (blocks at a seam, is pre-empted at a traced line, or finishes).  Which thread gets the
# baton is decided by the Policy (seeded or replayed), never by the OS.
#
# Nothing in here reads a real clock or draws from a global PRNG (except the hang watchdog).

import heapq
import os
import sys
import threading as _real_threading
import traceback

NS = 1_000_000_000

# the real Thread methods, captured before any seam may replace them for the duration of a run
# (seams.install_seams diverts Thread.start/join/is_alive of threads created by the code under
# test, e.g. a threading.Thread subclass defined at import time; the simulator's own baton
# threads must keep using the real ones)
_THREAD_START = _real_threading.Thread.start
_THREAD_JOIN = _real_threading.Thread.join
_THREAD_IS_ALIVE = _real_threading.Thread.is_alive


# Watchdog for endless loops in the code under test (the only place where wall time matters:
# a run that would never end has no replayable history anyway; steps normally take < 10 ms)
HANG_WALL_S = float(os.environ.get("VERIF_HANG_S", "20"))


MAX_HISTORY = 3_000_000


class SimAbort(BaseException):
	"""Raised inside simulated threads at seam calls when the run is being torn down."""


class HarnessError(Exception):
	"""The simulator itself is in a state it cannot handle (never a property violation)."""


class Policy:
	"""Scheduling decisions.  `picks` = index into the runnable list whenever more than one
	thread is runnable; `preempt_at` = set of decision-point numbers (line events at which
	another thread was runnable) at which the running thread is switched away from."""

	def __init__(self, rng=None, picks=None, preempt_at=None, walk_p=0.0):
		self.rng = rng
		self.replay_picks = list(picks) if picks is not None else None
		self.picks_out = []
		self.preempt_at = set(tuple(x) if isinstance(x, (list, tuple)) else x for x in (preempt_at or ()))
		self.preempted_out = []
		self.walk_p = walk_p
		self.replay = picks is not None

	def pick(self, n):
		if self.replay_picks is not None:
			i = self.replay_picks.pop(0) if self.replay_picks else 0
			if i >= n:
				i = 0
		elif self.rng is not None:
			i = self.rng.randrange(n)
		else:
			i = 0
		self.picks_out.append(i)
		return i

	def preempt(self, point_no):
		if point_no in self.preempt_at:
			hit = True
		elif not self.replay and self.walk_p > 0.0 and self.rng is not None:
			hit = self.rng.random() < self.walk_p
		else:
			hit = False
		if hit:
			self.preempted_out.append(point_no)
		return hit


class SimThread:
	NEW, RUNNABLE, BLOCKED, DONE = "new", "runnable", "blocked", "done"

	def __init__(self, sim, target, name, args=(), kwargs=None):
		self.sim = sim
		self.target = target
		self.args = args
		self.kwargs = kwargs or {}
		self.name = name
		self.state = self.NEW
		self.sem = _real_threading.Semaphore(0)
		self.wait_id = 0
		self.wake_reason = None
		self.blocked_on = None
		self.joiners = []
		self.real = None
		self.death = None
		self.daemon = True
		self.just_preempted = False
		self.wake_at = None

	def _bootstrap(self):
		sim = self.sim
		self.sem.acquire()
		try:
			if sim.aborting:
				return
			if sim.tracer is not None:
				sys.settrace(sim.tracer)
			self.target(*self.args, **self.kwargs)
		except SimAbort:
			pass
		except BaseException as e:  # thread death is an observable of the run
			if sim.aborting:
				return
			tb = traceback.extract_tb(e.__traceback__)
			frames = [(f.filename.rsplit("/", 1)[-1], f.name, f.lineno) for f in tb]
			self.death = {"type": type(e).__name__, "msg": str(e)[:200], "frames": frames[-6:]}
			sim.record("thread-death", thread=self.name, exc=type(e).__name__,
				msg=str(e)[:200], where=["%s:%s" % (f[0], f[1]) for f in frames[-4:]])
		finally:
			sys.settrace(None)
			self.state = self.DONE
			for t, wid in self.joiners:
				t.wake(wid, "joined")
			self.joiners = []
			sim.driver_sem.release()

	def wake(self, wid, reason):
		if self.state == self.BLOCKED and self.wait_id == wid:
			self.state = self.RUNNABLE
			self.wake_reason = reason
			self.blocked_on = None

	def new_wait(self, what):
		self.wait_id += 1
		self.blocked_on = what
		return self.wait_id


class Sim:
	def __init__(self, policy=None, max_events=5_000_000):
		self.now = 0
		self.heap = []
		self.seq = 0
		self.threads = []
		self.current = None
		self.policy = policy or Policy()
		self.driver_sem = _real_threading.Semaphore(0)
		self.aborting = False
		self.tracer = None
		self.history = []
		self.deaths = []
		self.nthreads = 0
		self.point_no = 0  # pre-emption decision points seen
		self.line_events = 0
		self.switches = 0
		self.max_events = max_events
		self.events_run = 0
		self.deadlock = False
		self.switch_sig = []  # (thread, file:line) of every pre-emption taken
		self.trace_files = ()
		self.record_hook = None
		self.win_time = None   # virtual instant of the current race window
		self.win_idx = 0       # decision points seen in it
		self.point_log = None  # when a list: (key, thread, file:line) of every decision point
		self.faults = None  # seams.FaultScript
		self.clock_offset = 0  # what monotonic_ns() reads at virtual time 0
		self.lock_contention = 0
		self.hung = False

	# ---- history -------------------------------------------------------------------
	def record(self, kind, **kw):
		ev = (self.now, kind, kw)
		self.history.append(ev)
		if len(self.history) > MAX_HISTORY and self.current is not None and not self.hung:
			# a simulated thread that produces events without end (sends in a loop, say) never
			# trips the wall-clock watchdog's "no seam reached" test but would eat all memory
			self.hung = True
			t = self.current
			self.history.append((self.now, "thread-death", {"thread": t.name, "exc": "Hang",
				"msg": "more than %d recorded events in one run (endless loop producing events)" % MAX_HISTORY,
				"where": []}))
			raise SimAbort()
		if self.record_hook is not None:
			self.record_hook(ev)

	# ---- timers --------------------------------------------------------------------
	def at(self, t, fn):
		if t < self.now:
			t = self.now
		self.seq += 1
		heapq.heappush(self.heap, (t, self.seq, fn))

	def after(self, dt, fn):
		self.at(self.now + dt, fn)

	# ---- threads -------------------------------------------------------------------
	def cur(self):
		t = self.current
		if t is None:
			raise HarnessError("blocking seam called from driver/callback context")
		return t

	def spawn(self, target, name=None, args=(), kwargs=None):
		self.nthreads += 1
		t = SimThread(self, target, name or ("T%d" % self.nthreads), args, kwargs)
		return t

	def start_thread(self, t):
		if t.state != SimThread.NEW:
			raise RuntimeError("threads can only be started once")
		t.real = _real_threading.Thread(target=t._bootstrap, name="sim-" + t.name, daemon=True)
		t.real._vp_real = True
		t.state = SimThread.RUNNABLE
		self.threads.append(t)
		_THREAD_START(t.real)
		self.record("thread-start", thread=t.name)

	def _park(self, t):
		"""Called by simulated thread t: give the baton back to the driver and wait."""
		self.driver_sem.release()
		t.sem.acquire()
		if self.aborting:
			raise SimAbort()

	def block(self, t):
		"""t has registered what it waits for; park until woken."""
		t.state = SimThread.BLOCKED
		self._park(t)
		return t.wake_reason

	def yield_now(self, t):
		"""Voluntary pre-emption: stay runnable, let the driver choose again."""
		t.state = SimThread.RUNNABLE
		t.just_preempted = True
		self._park(t)

	def sleep(self, ns):
		t = self.cur()
		if ns <= 0:
			return
		wid = t.new_wait(("sleep", ns))
		self.at(self.now + ns, lambda: t.wake(wid, "timeout"))
		self.block(t)

	# ---- driver loop ---------------------------------------------------------------
	def run(self, until=None):
		"""Run until no thread is runnable and no event is due at or before `until`
		(or the heap is empty when until is None)."""
		if self.current is not None:
			raise HarnessError("Sim.run re-entered")
		while True:
			while self.heap and self.heap[0][0] <= self.now:
				_, _, fn = heapq.heappop(self.heap)
				self.events_run += 1
				fn()
			if self.events_run > self.max_events:
				raise HarnessError("event budget exceeded")
			if self.hung:
				break
			runnable = [t for t in self.threads if t.state == SimThread.RUNNABLE]
			if runnable:
				if len(runnable) > 1:
					cand = [t for t in runnable if not t.just_preempted] or runnable
					t = cand[self.policy.pick(len(cand))] if len(cand) > 1 else cand[0]
				else:
					t = runnable[0]
				for r in runnable:
					r.just_preempted = False
				self._resume(t)
				continue
			if not self.heap:
				break
			if until is not None and self.heap[0][0] > until:
				self.now = max(self.now, until)
				break
			self.now = self.heap[0][0]
		self.threads = [t for t in self.threads if t.state != SimThread.DONE]

	def _resume(self, t):
		self.current = t
		self.switches += 1
		t.sem.release()
		if not self.driver_sem.acquire(timeout=HANG_WALL_S):
			self._hung(t)
		self.current = None
		if t.death is not None and t.death not in self.deaths:
			self.deaths.append(t.death)

	def _hung(self, t):
		"""The running simulated thread has not come back to any seam for HANG_WALL_S seconds of
		wall time (normal steps take micro- to milliseconds): a busy loop in the code under test.
		It is reported like a thread death and the thread is unwound by an exception raised into
		it; what cannot be unwound (a blocking call outside the simulation) is a harness error."""
		where = []
		try:
			fr = sys._current_frames().get(t.real.ident)
			for f in traceback.extract_stack(fr)[-6:]:
				where.append("%s:%s" % (f.filename.rsplit("/", 1)[-1], f.name))
		except Exception:
			pass
		import ctypes
		ctypes.pythonapi.PyThreadState_SetAsyncExc(ctypes.c_ulong(t.real.ident), ctypes.py_object(SimAbort))
		if not self.driver_sem.acquire(timeout=20):
			raise HarnessError("simulated thread %s is stuck outside the simulation: %s" % (t.name, where))
		t.death = {"type": "Hang", "msg": "no progress", "frames": where}
		self.hung = True  # the run ends here: Sim.run() returns at once from now on
		self.record("thread-death", thread=t.name, exc="Hang",
			msg="busy for more than %g s of wall time without reaching a seam (endless loop)" % HANG_WALL_S,
			where=where[-4:])

	def others_runnable(self, t):
		for o in self.threads:
			if o is not t and o.state == SimThread.RUNNABLE:
				return True
		return False

	# ---- line-level pre-emption ----------------------------------------------------
	def enable_line_preemption(self, filenames):
		"""Install a tracer in every simulated thread started after this call; line events
		in code objects whose file basename is in `filenames` become pre-emption points."""
		self.trace_files = frozenset(filenames)
		sim = self
		files = self.trace_files

		def local(frame, event, arg):
			if event == "line":
				sim.line_events += 1
				t = sim.current
				if t is not None and sim.others_runnable(t):
					key = sim.next_point()
					if sim.point_log is not None:
						code = frame.f_code
						sim.point_log.append((key, t.name, "%s:%d" % (code.co_filename.rsplit("/", 1)[-1], frame.f_lineno)))
					if sim.policy.preempt(key):
						code = frame.f_code
						sim.switch_sig.append((t.name, "%s:%d" % (
							code.co_filename.rsplit("/", 1)[-1], frame.f_lineno)))
						sim.yield_now(t)
			return local

		def tracer(frame, event, arg):
			if event == "call":
				fn = frame.f_code.co_filename
				if fn.rsplit("/", 1)[-1] in files:
					return local
			return None

		self.tracer = tracer

	def next_point(self):
		"""Key of the next pre-emption decision point: (virtual instant, index within it).  Keys
		of one instant do not depend on what happened in earlier race windows."""
		if self.now != self.win_time:
			self.win_time = self.now
			self.win_idx = 0
		self.win_idx += 1
		self.point_no += 1
		return (self.win_time, self.win_idx)

	def sync_point(self, label):
		"""A pre-emption point at a synchronisation call (lock acquire/release) in fine mode."""
		if self.tracer is None:
			return
		t = self.current
		if t is not None and self.others_runnable(t):
			key = self.next_point()
			if self.point_log is not None:
				self.point_log.append((key, t.name, label))
			if self.policy.preempt(key):
				self.switch_sig.append((t.name, label))
				self.yield_now(t)

	# ---- teardown ------------------------------------------------------------------
	def abort(self):
		"""Unwind every simulated thread that is still alive."""
		self.aborting = True
		for _ in range(50):
			live = [t for t in self.threads if t.state != SimThread.DONE and t.real is not None]
			if not live:
				break
			for t in live:
				t.sem.release()
				self.driver_sem.acquire()
		for t in self.threads:
			if t.real is not None:
				_THREAD_JOIN(t.real, 1.0)
		self.threads = []
		self.heap = []

	def blocked_threads(self):
		return [(t.name, t.blocked_on) for t in self.threads if t.state == SimThread.BLOCKED]
