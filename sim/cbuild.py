# Build C sources from $VERIF_REPO into shared objects, per check invocation, in a private
# directory that is removed when the parent process exits.  Nothing is cached across runs:
# checks must rebuild from the repository's current working tree.

import atexit
import os
import shutil
import subprocess
import tempfile

from .toolkit import REPO

VERIF = os.path.dirname(os.path.dirname(os.path.abspath(__file__)))
CSRC = os.path.join(VERIF, "csrc")

_dir = None
_owner = None


def build_dir():
	global _dir, _owner
	if _dir is None:
		_dir = tempfile.mkdtemp(prefix="vp-build.")
		_owner = os.getpid()
		atexit.register(_cleanup)
	return _dir


def _cleanup():
	if _dir is not None and os.getpid() == _owner:
		shutil.rmtree(_dir, ignore_errors=True)


def repo_path(*rel):
	return os.path.join(REPO, *rel)


def build_so(name, sources, cflags=(), includes=(), idirafter=(), cc="gcc", sanitize=False, libs=()):
	"""Compile `sources` (absolute paths) into <build_dir>/<name>.so and return its path.
	Raises RuntimeError with the compiler output on failure."""
	out = os.path.join(build_dir(), name + ".so")
	cmd = [cc, "-shared", "-fPIC", "-O1", "-g", "-fno-omit-frame-pointer", "-w"]
	if sanitize:
		cmd += ["-fsanitize=address,undefined", "-fno-sanitize-recover=undefined"]
	for i in includes:
		cmd += ["-I", i]
	for i in idirafter:
		cmd += ["-idirafter", i]
	cmd += list(cflags)
	cmd += list(sources)
	cmd += ["-o", out]
	cmd += list(libs)
	p = subprocess.run(cmd, stdout=subprocess.PIPE, stderr=subprocess.STDOUT, text=True)
	if p.returncode != 0:
		raise RuntimeError("C build of %s failed:\n%s\n%s" % (name, " ".join(cmd), p.stdout[-4000:]))
	return out
