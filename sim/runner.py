# Batch runner shared by all engines: seeds -> plans -> executions, fan-out over worker
# processes, determinism rechecks, minimisation, replay files, known findings, evidence.

import concurrent.futures as cf
import faulthandler
import hashlib
import json
import multiprocessing as mp
import os
import random
import sys
import time
import traceback

VERIF = os.path.dirname(os.path.dirname(os.path.abspath(__file__)))
EVIDENCE_DIR = os.environ.get("VERIF_EVIDENCE_DIR") or os.path.join(VERIF, "evidence")
REPLAY_DIR = os.environ.get("VERIF_REPLAY_DIR") or os.path.join(VERIF, "replays")
SEED_MUL = 1_000_003


def rng_for(seed, name):
	h = hashlib.blake2b(("%d/%s" % (seed, name)).encode(), digest_size=8).digest()
	return random.Random(int.from_bytes(h, "big"))


def digest_of(obj):
	return hashlib.blake2b(json.dumps(obj, sort_keys=True, default=repr).encode(),
		digest_size=12).hexdigest()


class Result:
	"""Outcome of one simulated run."""
	__slots__ = ("violations", "digest", "signature", "nontrivial", "faults", "probes",
		"sim_ns", "steps", "choices", "foreign")

	def __init__(self):
		self.violations = []   # [{"clause":..., "detail":..., "owners":[...]}]
		self.digest = ""
		self.signature = ""
		self.nontrivial = False
		self.faults = {}
		self.probes = {}
		self.sim_ns = 0
		self.steps = 0
		self.choices = None
		self.foreign = 0

	def owned(self, prop):
		return [v for v in self.violations if prop in v.get("owners", ())]


# ------------------------------------------------------------------ worker side -------
_ENGINE = None


class RunHang(BaseException):
	"""Raised into the thread that executes a run when the whole run exceeds the wall limit."""


RUN_WALL_S = 3 * float(os.environ.get("VERIF_HANG_S", "20"))
_HANG_DIR = None      # batch mode: where a worker that cannot be unwound leaves its verdict
_REPLAY_PATH = None   # replay mode: the file being replayed


def guarded_execute(engine, plan, prop, choices=None):
	"""engine.execute under a wall-clock watchdog: code under test that loops for ever in the
	calling thread (engines without simulated threads run it there) ends the run with a
	`<prop>.hang` violation instead of hanging the worker.  Simulated threads have their own,
	shorter watchdog in the kernel."""
	import ctypes
	import threading
	import traceback
	me = threading.get_ident()
	done = threading.Event()
	state = {}

	def watchdog():
		if done.wait(RUN_WALL_S):
			return
		try:
			fr = sys._current_frames().get(me)
			state["where"] = ["%s:%s" % (f.filename.rsplit("/", 1)[-1], f.name) for f in traceback.extract_stack(fr)[-6:]]
		except Exception:
			state["where"] = []
		if not done.is_set():
			ctypes.pythonapi.PyThreadState_SetAsyncExc(ctypes.c_ulong(me), ctypes.py_object(RunHang))
		if done.wait(15):
			return
		# still not back: the loop is inside foreign (C) code, which no exception reaches.  The
		# process is lost; leave the verdict where the parent (or the replaying user) finds it.
		verdict = {"clause": "%s.hang" % prop, "owners": [prop], "detail": {"exc": "Hang",
			"msg": "the run did not end within %g s of wall time and could not be interrupted (endless loop inside native code)" % (RUN_WALL_S + 15),
			"where": state.get("where", [])[-4:]}}
		if _HANG_DIR is not None:
			try:
				with open(os.path.join(_HANG_DIR, "hang.%d.json" % os.getpid()), "w") as f:
					json.dump({"seed": plan.get("seed"), "plan": plan, "violation": verdict}, f, default=repr)
			except Exception:
				pass
			os._exit(3)
		print("VIOLATION property=%s replay=%s" % (prop, _REPLAY_PATH or "?"))
		print("  clause=%s detail=%s" % (verdict["clause"], str(verdict["detail"])[:400]))
		sys.stdout.flush()
		os._exit(1)

	w = threading.Thread(target=watchdog, name="vp-run-watchdog", daemon=True)
	w._vp_real = True
	from sim.kernel import _THREAD_START
	_THREAD_START(w)
	try:
		try:
			return engine.execute(plan, prop, choices=choices) if choices is not None else engine.execute(plan, prop)
		finally:
			done.set()
	except RunHang:
		res = Result()
		res.violations = [{"clause": "%s.hang" % prop, "owners": [prop], "detail": {"exc": "Hang",
			"msg": "the run did not end within %g s of wall time (endless loop in the code under test)" % RUN_WALL_S,
			"where": state.get("where", [])[-4:]}}]
		res.digest = "hang"
		res.signature = "hang"
		return res


def _worker_chunk(args):
	prop, tier, seeds, want_samples = args
	engine = _ENGINE
	faulthandler.dump_traceback_later(240, exit=True)
	out = []
	try:
		for seed in seeds:
			plan = engine.generate(seed, prop, tier)
			res = guarded_execute(engine, plan, prop)
			owned = res.owned(prop)
			owned.sort(key=lambda v: not _is_hang(v))  # an endless loop explains whatever else went wrong
			rec = {
				"seed": seed, "digest": res.digest, "sig": res.signature,
				"nontrivial": res.nontrivial, "faults": res.faults, "probes": res.probes,
				"sim_ns": res.sim_ns, "steps": res.steps,
				"foreign": len(res.violations) - len(owned),
				"violation": owned[0] if owned else None,
			}
			if owned:
				rec["plan"] = plan
				rec["choices"] = res.choices
			elif want_samples and len([r for r in out if "plan" in r]) < 1:
				rec["plan"] = plan
			out.append(rec)
			if owned and _is_hang(owned[0]):
				break  # every further run of this chunk may hang as long again
	finally:
		faulthandler.cancel_dump_traceback_later()
	return out


def _is_hang(violation):
	d = violation.get("detail")
	return isinstance(d, dict) and d.get("exc") == "Hang"


# ------------------------------------------------------------------ minimisation ------
def same_class(v, clause):
	return v is not None and v["clause"] == clause


def minimise(engine, prop, plan, choices, violation, budget_s=120):
	"""Delta debugging over plan['ops'], then engine-specific simplifications.  A candidate
	is kept only if re-execution yields a violation with the same clause."""
	clause = violation["clause"]
	t0 = time.time()
	tries = 0

	def fails(p, ch):
		nonlocal tries
		tries += 1
		try:
			r = engine.execute(p, prop, choices=ch)
		except Exception:
			return None
		ow = [v for v in r.owned(prop) if v["clause"] == clause]
		if ow:
			return (ow[0], r.choices)
		if ch is not None:  # schedule-dependent: try without the recorded choices as well
			try:
				r = engine.execute(p, prop, choices=None)
			except Exception:
				return None
			ow = [v for v in r.owned(prop) if v["clause"] == clause]
			if ow:
				return (ow[0], r.choices)
		return None

	best = (plan, choices, violation)
	ops = list(plan.get("ops", []))
	n = 2
	while len(ops) >= 2 and time.time() - t0 < budget_s:
		chunk = max(1, len(ops) // n)
		reduced = False
		i = 0
		while i < len(ops) and time.time() - t0 < budget_s:
			if hasattr(engine, "drop_ops"):
				cand = engine.drop_ops(best[0], i, i + chunk)
			else:
				cand = dict(best[0])
				cand["ops"] = ops[:i] + ops[i + chunk:]
			got = fails(cand, best[1])
			if got:
				ops = list(cand["ops"])
				best = (cand, got[1], got[0])
				reduced = True
			else:
				i += chunk
		if not reduced:
			if chunk == 1:
				break
			n = min(len(ops), n * 2)
		else:
			n = max(2, n - 1)
	# engine-specific simplifications (argument shrinking, faults off, fewer nodes)
	if hasattr(engine, "simplify"):
		progress = True
		while progress and time.time() - t0 < budget_s:
			progress = False
			for cand in engine.simplify(best[0]):
				if time.time() - t0 >= budget_s:
					break
				got = fails(cand, best[1])
				if got:
					best = (cand, got[1], got[0])
					progress = True
					break
	return best + (tries,)


# ------------------------------------------------------------------ known findings ----
def load_known():
	p = os.path.join(VERIF, "known_findings.json")
	if not os.path.exists(p):
		return []
	with open(p) as f:
		data = json.load(f)
	return [e for e in data.get("findings", []) if e.get("status", "open") == "open"]


def match_known(known, prop, violation):
	sig = violation.get("signature") or violation["clause"]
	for e in known:
		if e["property"] == prop and e["signature"] == sig:
			return e
	return None


# ------------------------------------------------------------------ batch -------------
def run_check(engine, prop, tier, level="exploration", runs_quick=400, budget_quick_s=45,
		budget_thorough_s=600, chunk=None, assumptions=(), real_stub=None, rule="",
		exhaustive=False):
	t0 = time.time()
	base_seed = int(os.environ.get("VERIF_SEED", "1"))
	workers = int(os.environ.get("VERIF_WORKERS", str(min(16, os.cpu_count() or 1))))
	if tier == "thorough":
		budget = float(os.environ.get("VERIF_BUDGET_S", str(budget_thorough_s)))
		max_runs = int(os.environ.get("VERIF_MAX_RUNS", "100000000"))
	else:
		budget = float(os.environ.get("VERIF_BUDGET_S", str(budget_quick_s)))
		max_runs = int(os.environ.get("VERIF_MAX_RUNS", str(runs_quick)))
	engine.setup()
	global _ENGINE, _HANG_DIR
	_ENGINE = engine  # inherited by the forked workers
	import tempfile
	_HANG_DIR = tempfile.mkdtemp(prefix="vp-hang.")
	known = load_known()

	recs = []
	violations = []
	known_early = {}
	known_runs = [0]
	harness_errors = []
	next_idx = 0
	chunk = chunk or max(1, min(50, max_runs // (workers * 4) or 1))
	recheck = []  # seeds to run twice
	ctx = mp.get_context("fork")
	stop_on_violation = True
	with cf.ProcessPoolExecutor(max_workers=workers, mp_context=ctx) as ex:
		pending = {}

		def submit(seeds, samples):
			f = ex.submit(_worker_chunk, (prop, tier, seeds, samples))
			pending[f] = (seeds, time.time())

		def refill():
			nonlocal next_idx
			while len(pending) < workers * 2 and next_idx < max_runs and \
					(time.time() - t0) < budget and not (violations and stop_on_violation):
				seeds = [base_seed * SEED_MUL + i for i in range(next_idx, min(max_runs, next_idx + chunk))]
				next_idx += len(seeds)
				submit(seeds, True)

		refill()
		while pending:
			done, _ = cf.wait(list(pending), timeout=5, return_when=cf.FIRST_COMPLETED)
			now = time.time()
			for f in done:
				seeds, _t = pending.pop(f)
				try:
					out = f.result()
				except Exception as e:
					harness_errors.append("chunk %s: %r" % (seeds[:1], e))
					continue
				for r in out:
					recs.append(r)
					if r["violation"]:
						k = match_known(known, prop, r["violation"])
						if k is not None:  # a listed finding: report it, keep exploring
							known_early[r["violation"].get("signature") or r["violation"]["clause"]] = k
							known_runs[0] += 1
						else:
							violations.append(r)
			for f, (seeds, ts) in list(pending.items()):
				if now - ts > 300:
					harness_errors.append("chunk starting at seed %d exceeded 300 s" % seeds[0])
					pending.pop(f)
					f.cancel()
			if harness_errors:
				break
			refill()
		if harness_errors:
			for p in list(mp.active_children()):
				p.kill()
	# workers that were lost in an endless loop inside native code left their verdict behind
	import shutil
	hang_recs = []
	try:
		left = sorted(os.listdir(_HANG_DIR))
	except OSError:   # the scratch directory was removed under us (a /tmp cleaner): nothing was left there
		left = []
	for fn in left:
		try:
			with open(os.path.join(_HANG_DIR, fn)) as f:
				h = json.load(f)
			hang_recs.append({"seed": h["seed"], "plan": h["plan"], "choices": None, "violation": h["violation"],
				"digest": "hang", "sig": "hang", "nontrivial": True, "faults": {}, "probes": {}, "sim_ns": 0,
				"steps": 0, "foreign": 0})
		except Exception:
			pass
	shutil.rmtree(_HANG_DIR, ignore_errors=True)
	_HANG_DIR = None
	if hang_recs:
		harness_errors = []   # the broken pool is explained
		violations.extend(hang_recs)
		recs.extend(hang_recs)

	# determinism recheck: 2 % of the runs (at least 3) again, in the parent process
	mismatches = 0
	rechecks = 0
	if recs and not harness_errors:
		step = max(1, len(recs) // max(3, len(recs) // 50))
		for r in recs[::step][:60]:
			if r["violation"] and _is_hang(r["violation"]):
				continue
			try:
				plan = engine.generate(r["seed"], prop, tier)
				res = engine.execute(plan, prop)
				rechecks += 1
				if res.digest != r["digest"]:
					mismatches += 1
			except Exception as e:
				harness_errors.append("recheck seed %d: %r" % (r["seed"], e))
				break
			if time.time() - t0 > budget * 1.5 + 30:
				break
	if mismatches:
		harness_errors.append("determinism recheck: %d of %d digests differ" % (mismatches, rechecks))

	# ---- violations: minimise, classify against known findings, write replay files
	exit_code = 0
	reported = []
	known_hit = dict(known_early)
	if violations and not harness_errors:
		violations.sort(key=lambda r: r["seed"])
		by_clause = {}
		for r in violations:
			by_clause.setdefault(r["violation"].get("signature") or r["violation"]["clause"], r)
		os.makedirs(REPLAY_DIR, exist_ok=True)
		for sig, r in sorted(by_clause.items())[:4]:
			k = match_known(known, prop, r["violation"])
			if k is not None:
				known_hit[sig] = k
				continue
			try:
				if _is_hang(r["violation"]):  # every attempt costs the full watchdog time: reported as found
					raise RuntimeError("not minimised")
				plan, choices, viol, tries = minimise(engine, prop, r["plan"], r.get("choices"),
					r["violation"], budget_s=float(os.environ.get("VERIF_MINIMISE_S", "90")))
			except Exception as e:
				plan, choices, viol, tries = r["plan"], r.get("choices"), r["violation"], 0
			k = match_known(known, prop, viol)
			if k is not None:
				known_hit[viol.get("signature") or viol["clause"]] = k
				continue
			path = os.path.join(REPLAY_DIR, "%s-%d.json" % (prop, r["seed"]))
			try:  # the digest a replay must reproduce
				hd = "hang" if _is_hang(viol) else engine.execute(plan, prop, choices=choices).digest
			except Exception:
				hd = None
			with open(path, "w") as f:
				json.dump({"property": prop, "engine": engine.name, "tier": tier, "seed": r["seed"],
					"plan": plan, "choices": choices, "violation": viol, "history_digest": hd,
					"original_ops": len(r["plan"].get("ops", [])), "minimise_tries": tries},
					f, indent=1, default=repr)
			print("VIOLATION property=%s replay=%s" % (prop, path))
			print("  clause=%s detail=%s" % (viol["clause"], str(viol.get("detail"))[:300]))
			reported.append(viol)
			exit_code = 1
	for sig, k in sorted(known_hit.items()):
		print("KNOWN-FINDING: property=%s %s" % (prop, k["description"]))

	# ---- evidence
	wall = time.time() - t0
	faults = {}
	probes = {}
	sigs = set()
	sim_ns = 0
	steps = 0
	foreign = 0
	samples = []
	for r in recs:
		for k, v in r["faults"].items():
			faults[k] = faults.get(k, 0) + v
		for k, v in r["probes"].items():
			probes[k] = probes.get(k, 0) + v
		if r["nontrivial"]:
			sigs.add(r["sig"])
		sim_ns += r["sim_ns"]
		steps += r["steps"]
		foreign += r["foreign"]
		if "plan" in r and len(samples) < 3 and not r["violation"]:
			samples.append(_trim_plan(r["plan"]))
	if not samples and recs:
		samples.append({"seed": recs[0]["seed"]})
	ev = {
		"property_id": prop, "tier": tier, "seed": base_seed, "level": level,
		"coverage": {
			"evaluations": len(recs),
			"distinct_nontrivial": len(sigs),
			"rule": rule,
			"samples": samples,
			"exhaustive": bool(exhaustive),
			"engine": engine.name,
			"runs_per_hour": int(len(recs) / wall * 3600) if wall > 0 else 0,
			"seeds_per_hour": int(len(recs) / wall * 3600) if wall > 0 else 0,
			"simulated_seconds": round(sim_ns / 1e9, 3),
			"steps": steps,
			"faults_fired": dict(sorted(faults.items())),
			"probes_hit": dict(sorted(probes.items())),
			"determinism_rechecks": rechecks,
			"determinism_mismatches": mismatches,
			"foreign_violations": foreign,
			"workers": workers,
			"real_vs_stub": real_stub or {},
			"known_findings_hit": sorted(known_hit),
			"known_finding_runs": known_runs[0],
			"harness_errors": harness_errors,
			"notes": list(getattr(engine, "notes", lambda: [])()),
		},
		"assumptions": list(assumptions),
		"wall_s": round(wall, 2),
		"violations": len(reported),
	}
	os.makedirs(EVIDENCE_DIR, exist_ok=True)
	with open(os.path.join(EVIDENCE_DIR, "%s.json" % prop), "w") as f:
		json.dump(ev, f, indent=1, default=repr)
	print("%s %s: %d runs in %.1fs (%d distinct non-trivial), sim %.1fs, violations=%d known=%d foreign=%d"
		% (prop, tier, len(recs), wall, len(sigs), sim_ns / 1e9, len(reported), len(known_hit), foreign))
	if harness_errors:
		for h in harness_errors:
			print("HARNESS-ERROR: %s" % h)
		return 2
	if not recs:
		print("HARNESS-ERROR: no runs executed")
		return 2
	return exit_code


def _trim_plan(plan, max_ops=12):
	p = dict(plan)
	ops = p.get("ops", [])
	if len(ops) > max_ops:
		p["ops"] = ops[:max_ops] + ["… %d more" % (len(ops) - max_ops)]
	s = json.dumps(p, default=repr)
	if len(s) > 4000:
		p = {"seed": plan.get("seed"), "config": plan.get("config"), "ops": (ops[:4] if ops else [])}
	return p


def replay(engine, prop, path):
	with open(path) as f:
		rp = json.load(f)
	engine.setup()
	known = load_known()
	global _REPLAY_PATH
	_REPLAY_PATH = path
	res = guarded_execute(engine, rp["plan"], prop, choices=rp.get("choices"))
	ow = res.owned(prop)
	want = rp["violation"]["clause"]
	same = [v for v in ow if v["clause"] == want]
	hd = rp.get("history_digest")
	print("replay %s: digest=%s (%s) violations=%d" % (path, res.digest,
		"identical to the recorded run" if hd == res.digest else ("recorded %s: the tree behaves differently now" % hd if hd else "no recorded digest"), len(ow)))
	if same:
		v = same[0]
		if match_known(known, prop, v):
			print("KNOWN-FINDING: property=%s %s" % (prop, match_known(known, prop, v)["description"]))
			return 0
		print("VIOLATION property=%s replay=%s" % (prop, path))
		print("  clause=%s detail=%s" % (v["clause"], str(v.get("detail"))[:400]))
		return 1
	if ow:
		print("VIOLATION property=%s replay=%s" % (prop, path))
		print("  (different clause) %s" % ow[0]["clause"])
		return 1
	print("replay: no violation reproduced")
	return 0
