# Module-attribute seams: objects that stand in for `threading`, `time`, `socket`,
# `select` and `random` inside the toolkit modules for the duration of one simulated run.

import errno

from .kernel import SimThread, HarnessError


# ---------------------------------------------------------------- threading ----------
class SimEvent:
	def __init__(self, sim):
		self.sim = sim
		self._flag = False
		self.waiters = []

	def is_set(self):
		return self._flag

	def set(self):
		self._flag = True
		ws, self.waiters = self.waiters, []
		for t, wid in ws:
			t.wake(wid, "set")

	def clear(self):
		self._flag = False

	def wait(self, timeout=None):
		sim = self.sim
		if self._flag:
			return True
		t = sim.cur()
		wid = t.new_wait(("event", timeout))
		self.waiters.append((t, wid))
		if timeout is not None:
			ns = int(round(timeout * 1e9))
			if ns < 0:
				ns = 0
			late = sim.faults.next("wake-latency") if sim.faults is not None else 0
			sim.record("wait-enter", thread=t.name, timeout_ns=ns, late=late)
			t.wake_at = sim.now + ns + late
			sim.at(sim.now + ns + late, lambda: t.wake(wid, "timeout"))
		sim.block(t)
		return self._flag


class SimLock:
	def __init__(self, sim):
		self.sim = sim
		self.owner = None
		self.waiters = []

	def acquire(self, blocking=True, timeout=-1):
		sim = self.sim
		sim.sync_point("lock.acquire")
		t = sim.current
		while self.owner is not None:
			if not blocking:
				return False
			if t is None:
				raise HarnessError("driver would block on a simulated lock")
			wid = t.new_wait(("lock",))
			self.waiters.append((t, wid))
			sim.lock_contention += 1
			sim.block(t)
		self.owner = t if t is not None else "driver"
		return True

	def release(self):
		if self.owner is None:
			raise RuntimeError("release unlocked lock")
		self.owner = None
		ws, self.waiters = self.waiters, []
		for t, wid in ws:
			t.wake(wid, "lock-free")
		self.sim.sync_point("lock.release")

	def locked(self):
		return self.owner is not None

	def __enter__(self):
		self.acquire()
		return self

	def __exit__(self, *a):
		self.release()
		return False


class SimRLock(SimLock):
	"""Re-entrant variant: the owning simulated thread may acquire it again."""

	def __init__(self, sim):
		SimLock.__init__(self, sim)
		self.depth = 0

	def acquire(self, blocking=True, timeout=-1):
		t = self.sim.current
		me = t if t is not None else "driver"
		if self.owner is me:
			self.depth += 1
			return True
		ok = SimLock.acquire(self, blocking, timeout)
		if ok:
			self.depth = 1
		return ok

	def release(self):
		if self.depth > 1:
			self.depth -= 1
			return
		self.depth = 0
		SimLock.release(self)


class SimCondition:
	"""threading.Condition over a simulated (R)Lock."""

	def __init__(self, sim, lock=None):
		self.sim = sim
		self.lock = lock if lock is not None else SimRLock(sim)
		self.waiters = []
		self.acquire = self.lock.acquire
		self.release = self.lock.release

	def __enter__(self):
		self.lock.acquire()
		return self

	def __exit__(self, *a):
		self.lock.release()
		return False

	def wait(self, timeout=None):
		sim = self.sim
		t = sim.cur()
		depth = getattr(self.lock, "depth", 1)
		self.lock.depth = 1 if hasattr(self.lock, "depth") else None
		self.lock.release()
		wid = t.new_wait(("condition", timeout))
		self.waiters.append((t, wid))
		if timeout is not None:
			ns = max(0, int(round(timeout * 1e9)))
			late = sim.faults.next("wake-latency") if sim.faults is not None else 0
			sim.record("wait-enter", thread=t.name, timeout_ns=ns, late=late, how="condition")
			t.wake_at = sim.now + ns + late
			sim.at(sim.now + ns + late, lambda: t.wake(wid, "timeout"))
		reason = sim.block(t)
		self.lock.acquire()
		if hasattr(self.lock, "depth"):
			self.lock.depth = depth
		return reason != "timeout"

	def wait_for(self, predicate, timeout=None):
		while not predicate():
			if not self.wait(timeout):
				return predicate()
		return True

	def notify(self, n=1):
		ws, self.waiters = self.waiters[:n], self.waiters[n:]
		for t, wid in ws:
			t.wake(wid, "notified")

	def notify_all(self):
		self.notify(len(self.waiters))


class SimSemaphore:
	def __init__(self, sim, value=1):
		self.sim = sim
		self.value = value
		self.waiters = []

	def acquire(self, blocking=True, timeout=None):
		sim = self.sim
		while self.value <= 0:
			if not blocking:
				return False
			t = sim.cur()
			wid = t.new_wait(("semaphore",))
			self.waiters.append((t, wid))
			if timeout is not None:
				sim.at(sim.now + max(0, int(round(timeout * 1e9))), lambda: t.wake(wid, "timeout"))
			if sim.block(t) == "timeout":
				return False
		self.value -= 1
		return True

	def release(self, n=1):
		self.value += n
		ws, self.waiters = self.waiters, []
		for t, wid in ws:
			t.wake(wid, "released")

	__enter__ = acquire

	def __exit__(self, *a):
		self.release()
		return False


class SimThreadHandle:
	"""What `threading.Thread(...)` returns inside the simulation."""

	def __init__(self, sim, target=None, name=None, args=(), kwargs=None, daemon=None):
		self._sim = sim
		self._t = sim.spawn(target, name, args, kwargs)
		self.daemon = daemon
		self.name = self._t.name

	def start(self):
		self._sim.start_thread(self._t)

	def is_alive(self):
		return self._t.state in (SimThread.RUNNABLE, SimThread.BLOCKED)

	def join(self, timeout=None):
		sim = self._sim
		tt = self._t
		if tt.state in (SimThread.DONE, SimThread.NEW):
			return
		t = sim.cur()
		if t is tt:
			raise RuntimeError("cannot join current thread")
		wid = t.new_wait(("join", tt.name))
		tt.joiners.append((t, wid))
		if timeout is not None:
			sim.at(sim.now + int(round(timeout * 1e9)), lambda: t.wake(wid, "timeout"))
		sim.block(t)


class ThreadingSeam:
	def __init__(self, sim):
		self._sim = sim

	def Thread(self, group=None, target=None, name=None, args=(), kwargs=None, daemon=None):
		return SimThreadHandle(self._sim, target, name, args, kwargs, daemon)

	def Event(self):
		return SimEvent(self._sim)

	def Lock(self):
		return SimLock(self._sim)

	def RLock(self):
		return SimRLock(self._sim)

	def Condition(self, lock=None):
		return SimCondition(self._sim, lock)

	def Semaphore(self, value=1):
		return SimSemaphore(self._sim, value)

	BoundedSemaphore = Semaphore

	def current_thread(self):
		return self._sim.current

	def get_ident(self):
		t = self._sim.current
		return 0 if t is None else id(t)


# ---------------------------------------------------------------- time ---------------
class TimeSeam:
	"""Virtual monotonic clock.  `stall` faults make a time read or sleep take longer."""

	def __init__(self, sim):
		self._sim = sim

	def _stall(self):
		sim = self._sim
		if sim.faults is not None and sim.current is not None:
			ns = sim.faults.next("stall")
			if ns:
				sim.sleep(ns)

	def monotonic_ns(self):
		self._stall()
		return self._sim.now + self._sim.clock_offset

	def monotonic(self):
		return self.monotonic_ns() / 1e9

	def time(self):
		return self.monotonic()

	def time_ns(self):
		return self.monotonic_ns()

	def perf_counter(self):
		return self.monotonic()

	def perf_counter_ns(self):
		return self.monotonic_ns()

	def sleep(self, secs):
		if secs < 0:
			raise ValueError("sleep length must be non-negative")
		ns = int(round(secs * 1e9))
		sim = self._sim
		t = sim.current
		late = sim.faults.next("wake-latency") if sim.faults is not None else 0
		sim.record("wait-enter", thread=t.name if t is not None else None, timeout_ns=ns, late=late, how="sleep")
		sim.sleep(max(0, ns) + late)


# ---------------------------------------------------------------- faults --------------
class FaultScript:
	"""Explicit, plan-provided fault amounts: kind -> {call index: amount}.  A seam asks
	`next(kind)` each time it is reached; the k-th call of a kind gets script[kind][k]."""

	def __init__(self, script=None):
		self.script = {k: {int(i): v for i, v in d.items()} for k, d in (script or {}).items()}
		self.count = {}
		self.fired = {}

	def next(self, kind):
		k = self.count.get(kind, 0)
		self.count[kind] = k + 1
		d = self.script.get(kind)
		if not d:
			return 0
		v = d.get(k, 0)
		if v:
			self.fired[kind] = self.fired.get(kind, 0) + 1
		return v


# ---------------------------------------------------------------- random --------------
class RandomSeam:
	"""Stands in for the `random` module in the data path; every draw is logged."""

	def __init__(self, rng, log):
		self._rng = rng
		self._log = log

	def randint(self, a, b):
		v = self._rng.randint(a, b)  # raises ValueError on an empty range like the real one
		self._log.append((a, b, v))
		return v

	def randrange(self, *a):
		v = self._rng.randrange(*a)
		self._log.append(("randrange", a, v))
		return v

	def __getattr__(self, name):
		# anything else the code may use (choice, random, uniform, gauss, ...) comes from the
		# same seeded stream
		return getattr(self._rng, name)


# ---------------------------------------------------------------- sockets -------------
class SimSocketModule:
	AF_INET = 2
	SOCK_DGRAM = 2
	SOL_SOCKET = 1
	SO_REUSEADDR = 2
	error = OSError

	def __init__(self, net):
		self._net = net

	def socket(self, family=2, kind=2, proto=0):
		return SimSocket(self._net)


class SimSocket:
	def __init__(self, net):
		self.net = net
		self.addr = None
		self.queue = []  # (data, src)
		self.closed = False
		self.on_rx = None  # callback for stub-owned sockets
		self.trunc = 0

	def setsockopt(self, *a):
		pass

	def setblocking(self, flag):
		pass

	def settimeout(self, t):
		pass

	def connect(self, addr):
		self.peer = tuple(addr)

	def send(self, data):
		return self.sendto(data, getattr(self, "peer", None))

	def bind(self, addr):
		self.net.bind(self, addr)

	def getsockname(self):
		return self.addr or ("0.0.0.0", 0)

	def fileno(self):
		return id(self) & 0xffff

	def close(self):
		if not self.closed:
			self.closed = True
			self.net.unbind(self)

	def sendto(self, data, dst):
		self.net.send(self, bytes(data), dst)
		return len(data)

	def recvfrom(self, bufsize):
		if not self.queue:
			raise BlockingIOError(errno.EAGAIN, "Resource temporarily unavailable")
		data, src = self.queue.pop(0)
		self.net.sim.record("recv", port=self.addr[1] if self.addr else None, data=data, src=src, bufsize=bufsize)
		if len(data) > bufsize:  # UDP semantics: the excess is discarded
			self.net.stats["recv-truncation"] = self.net.stats.get("recv-truncation", 0) + 1
			self.trunc += 1
			data = data[:bufsize]
		return data, src

	def recv(self, bufsize):
		return self.recvfrom(bufsize)[0]


class SimNet:
	"""All datagrams of one run.  Sockets are keyed by port (every configuration in the
	plans uses distinct ports; the address part is recorded and checked by the oracle)."""

	def __init__(self, sim):
		self.sim = sim
		self.by_port = {}
		self.binds = []  # (addr, port) in order
		self.stats = {}
		self.select_waiters = []  # (thread, wid, socks)
		self.tx_hook = None  # called for every datagram a socket sends: (sock, data, dst)

	def bind(self, sock, addr):
		host, port = addr
		if port in self.by_port:
			raise OSError(errno.EADDRINUSE, "Address already in use")
		sock.addr = (host, port)
		self.by_port[port] = sock
		self.binds.append((host, port))

	def unbind(self, sock):
		if sock.addr is not None and self.by_port.get(sock.addr[1]) is sock:
			del self.by_port[sock.addr[1]]

	def send(self, sock, data, dst):
		self.sim.record("tx", sport=sock.addr[1] if sock.addr else None, dst=tuple(dst), data=data)
		if self.tx_hook is not None:
			self.tx_hook(sock, data, dst)

	def deliver(self, dst_port, data, src):
		"""Put a datagram into the receive queue of the socket bound to dst_port (now)."""
		sock = self.by_port.get(dst_port)
		if sock is None:
			self.stats["no-listener"] = self.stats.get("no-listener", 0) + 1
			return False
		if sock.on_rx is not None:
			sock.on_rx(data, src)
			return True
		sock.queue.append((data, src))
		ws = self.select_waiters
		if ws:
			keep = []
			for t, wid, socks in ws:
				if sock in socks:
					t.wake(wid, "readable")
				else:
					keep.append((t, wid, socks))
			self.select_waiters = keep
		return True


class SelectSeam:
	error = OSError

	def __init__(self, sim, net):
		self._sim = sim
		self._net = net

	def select(self, rlist, wlist, xlist, timeout=None):
		sim = self._sim
		while True:
			ready = [s for s in rlist if s.queue]
			if ready:
				return ready, [], []
			t = sim.cur()
			sim.record("select-enter", thread=t.name)
			wid = t.new_wait(("select",))
			self._net.select_waiters.append((t, wid, list(rlist)))
			if timeout is not None:
				sim.at(sim.now + int(round(timeout * 1e9)), lambda: t.wake(wid, "timeout"))
			reason = sim.block(t)
			if reason == "timeout":
				return [], [], []


# ---------------------------------------------------------------- selectors -----------
class SimSelectorKey(tuple):
	"""Stand-in for selectors.SelectorKey (fileobj, fd, events, data)."""
	__slots__ = ()
	fileobj = property(lambda self: self[0])
	fd = property(lambda self: self[1])
	events = property(lambda self: self[2])
	data = property(lambda self: self[3])


class SimSelector:
	def __init__(self, sim, net):
		self._sim = sim
		self._net = net
		self._keys = {}

	def register(self, fileobj, events, data=None):
		if id(fileobj) in self._keys:
			raise KeyError("already registered")
		k = SimSelectorKey((fileobj, fileobj.fileno() if hasattr(fileobj, "fileno") else -1, events, data))
		self._keys[id(fileobj)] = k
		return k

	def unregister(self, fileobj):
		return self._keys.pop(id(fileobj))

	def modify(self, fileobj, events, data=None):
		self.unregister(fileobj)
		return self.register(fileobj, events, data)

	def get_key(self, fileobj):
		return self._keys[id(fileobj)]

	def get_map(self):
		return {k.fileobj: k for k in self._keys.values()}

	def select(self, timeout=None):
		socks = [k.fileobj for k in self._keys.values() if k.events & 1]
		ready, _, _ = SelectSeam(self._sim, self._net).select(socks, [], [], timeout)
		return [(self._keys[id(s)], 1) for s in ready]

	def close(self):
		self._keys.clear()

	def __enter__(self):
		return self

	def __exit__(self, *a):
		self.close()


class SelectorsSeam:
	EVENT_READ = 1
	EVENT_WRITE = 2
	SelectorKey = SimSelectorKey

	def __init__(self, sim, net):
		self._sim = sim
		self._net = net

	def DefaultSelector(self):
		return SimSelector(self._sim, self._net)

	SelectSelector = PollSelector = EpollSelector = DefaultSelector


# ---------------------------------------------------------------- Thread subclasses ----
_ACTIVE = {"sim": None}


def _thread_start(self):
	from .kernel import _THREAD_START
	sim = _ACTIVE["sim"]
	if sim is None or getattr(self, "_vp_real", False):
		return _THREAD_START(self)
	if getattr(self, "_vp_handle", None) is not None:
		raise RuntimeError("threads can only be started once")
	h = sim.spawn(self.run, None)  # simulator-assigned name: real default names count per process
	self._vp_handle = h
	sim.start_thread(h)


def _thread_join(self, timeout=None):
	from .kernel import _THREAD_JOIN
	h = getattr(self, "_vp_handle", None)
	sim = _ACTIVE["sim"]
	if h is None or sim is None:
		if sim is not None and not getattr(self, "_vp_real", False) and getattr(self, "_vp_handle", None) is None:
			raise RuntimeError("cannot join thread before it is started")
		return _THREAD_JOIN(self, timeout)
	if h.state in (SimThread.DONE, SimThread.NEW):
		return
	t = sim.cur()
	if t is h:
		raise RuntimeError("cannot join current thread")
	wid = t.new_wait(("join", h.name))
	h.joiners.append((t, wid))
	if timeout is not None:
		sim.at(sim.now + int(round(timeout * 1e9)), lambda: t.wake(wid, "timeout"))
	sim.block(t)


def _thread_is_alive(self):
	from .kernel import _THREAD_IS_ALIVE
	h = getattr(self, "_vp_handle", None)
	if h is None:
		if _ACTIVE["sim"] is not None and not getattr(self, "_vp_real", False):
			return False
		return _THREAD_IS_ALIVE(self)
	return h.state in (SimThread.RUNNABLE, SimThread.BLOCKED)


# ---------------------------------------------------------------- installation --------
def install_seams(modules, patch, sim, net=None, env=None):
	"""Replace, in every given toolkit module, whatever it holds of threading / time / socket /
	select / random — the module objects themselves or names imported from them — by the
	simulated counterparts.  `patch(module, name, value)` records and applies one replacement."""
	import random as _random
	import select as _select
	import selectors as _selectors
	import socket as _socket
	import threading as _threading
	import time as _time
	thr = ThreadingSeam(sim)
	tm = TimeSeam(sim)
	by_module = {_threading: thr, _time: tm}
	# threads of a threading.Thread subclass (bound to the real class at import time) are
	# started, joined and queried through the class itself: divert that for this run
	_ACTIVE["sim"] = sim
	patch(_threading.Thread, "start", _thread_start)
	patch(_threading.Thread, "join", _thread_join)
	patch(_threading.Thread, "is_alive", _thread_is_alive)
	names = {}
	for n in ("Thread", "Event", "Lock", "RLock", "Condition", "Semaphore", "BoundedSemaphore", "current_thread", "get_ident"):
		names[id(getattr(_threading, n))] = getattr(thr, n)
	for n in ("monotonic_ns", "monotonic", "time", "time_ns", "perf_counter", "perf_counter_ns", "sleep"):
		names[id(getattr(_time, n))] = getattr(tm, n)
	if net is not None:
		sockmod = SimSocketModule(net)
		selmod = SelectSeam(sim, net)
		by_module[_socket] = sockmod
		by_module[_select] = selmod
		by_module[_selectors] = SelectorsSeam(sim, net)
		names[id(_socket.socket)] = sockmod.socket
		names[id(_select.select)] = selmod.select
	if env is not None:
		by_module[_random] = env
		for n in ("randint", "randrange", "choice", "uniform", "getrandbits", "shuffle", "sample", "random"):
			names[id(getattr(_random, n))] = getattr(env, n)
	# synchronisation objects made while the module body ran (module level or class level: one
	# object shared by every instance) were made by the real threading module
	early = ((_threading.Event, thr.Event), (type(_threading.Lock()), thr.Lock), (type(_threading.RLock()), thr.RLock),
		(_threading.Condition, thr.Condition), (_threading.BoundedSemaphore, thr.BoundedSemaphore),
		(_threading.Semaphore, thr.Semaphore))

	def early_object(holder, name, val):
		for real, make in early:
			if type(val) is real:
				patch(holder, name, make())
				return True
		return False

	for mod in modules:
		for name, val in list(mod.__dict__.items()):
			if name.startswith("__"):
				continue
			try:
				if val in by_module:
					patch(mod, name, by_module[val])
					continue
			except TypeError:
				pass
			rep = names.get(id(val))
			if rep is not None and not isinstance(val, (int, float, str, bytes, tuple)):
				patch(mod, name, rep)
				continue
			if early_object(mod, name, val):
				continue
			if isinstance(val, type) and getattr(val, "__module__", None) == mod.__name__:
				for cname, cval in list(vars(val).items()):
					if not cname.startswith("__"):
						early_object(val, cname, cval)
	return thr, tm


def uninstall_seams():
	_ACTIVE["sim"] = None
