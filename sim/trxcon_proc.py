# trxcon's transceiver interface (the unmodified $VERIF_REPO/src/host/trxcon/src/trx_if.c) as a
# sanitizer-instrumented child process with a synchronous line protocol (see
# csrc/trxcon/driver.c for the full list of requests and events).
#
#   path = build()                      once per check invocation (parent process)
#   p = TrxconProc(path)                one child per simulated trxcon node
#   evs = p.request("open 127.0.0.1 127.0.0.1 6700")
#   for ev in p.request("cmd POWERON"): ...      ev = ["tx", "ctrl", "434d44..."] etc.
#   p.close()
#
# No module-level state except the build cache keyed by (repository, variant) inside
# cbuild.build_dir(), which is private to the process tree of one check invocation.

import os
import select
import signal
import subprocess
import tempfile
import time

from . import cbuild

CSRC = os.path.join(cbuild.CSRC, "trxcon")

# symbolize=0: the sanitizer's in-process symbolizer costs ~150 ms per report here; frames are
# resolved afterwards with addr2line instead (class Symbolizer, a few ms, memoised per binary)
ASAN_OPTIONS = "abort_on_error=0:detect_leaks=1:exitcode=99:symbolize=0"
UBSAN_OPTIONS = "print_stacktrace=1:halt_on_error=1"

# Automatic variables that trx_if.c reads without having written them (`resp` after a failed
# sscanf, for one) would make runs depend on stale stack contents; the compiler fills them
# instead: "zero" or "pattern" (0xFE octets).  Both are legitimate values of an indeterminate
# object, the engine uses both builds.
AUTOINIT = ("zero", "pattern")

# events whose tail is free text
_TEXT_EVENTS = {"log": 3, "fsm_violation": 1, "err": 1, "assert_failed": 1, "talloc_bad_free": 1}


def build_cmd(out, autoinit="zero", sanitize=True, cc="gcc"):
	R = cbuild.repo_path
	cmd = [cc, "-O1", "-g", "-fno-omit-frame-pointer", "-w"]
	if sanitize:
		cmd += ["-fsanitize=address,undefined", "-fno-sanitize-recover=undefined"]
	cmd += ["-ftrivial-auto-var-init=%s" % autoinit,
		# network seam: trx_if.c's read()/send()/close() are the simulator's
		"-Dread=sim_read", "-Dsend=sim_send", "-Dclose=sim_close", "-U_FORTIFY_SOURCE",
		"-I", os.path.join(CSRC, "shim"), "-I", CSRC,
		"-I", R("src", "host", "trxcon", "include"),
		# only <osmocom/core/linuxlist.h> is taken from the in-tree libosmocore copy
		"-idirafter", R("src", "shared", "libosmocore", "include"),
		R("src", "host", "trxcon", "src", "trx_if.c"),
		os.path.join(CSRC, "shim.c"), os.path.join(CSRC, "driver.c"),
		# the sanitizer's scanf interceptor does not look at the input string: shim.c does
		"-Wl,--wrap=sscanf,--wrap=__isoc99_sscanf,--wrap=__isoc23_sscanf",
		"-o", out]
	return cmd


def build(autoinit="zero", sanitize=True):
	"""Compile driver + shim + the repository's trx_if.c into an executable inside
	cbuild.build_dir() and return its path.  Built once per check invocation and variant;
	raises RuntimeError with the compiler output on failure."""
	paths = build_all([autoinit], sanitize=sanitize)
	return paths[autoinit]


def build_all(variants=AUTOINIT, sanitize=True):
	"""Build several variants concurrently; returns {variant: path}."""
	d = cbuild.build_dir()
	jobs = {}
	out = {}
	for v in variants:
		if v not in AUTOINIT:
			raise ValueError("unknown variant %r" % (v,))
		path = os.path.join(d, "trxcon_driver_%s%s" % (v, "" if sanitize else "_nosan"))
		out[v] = path
		if os.path.exists(path):
			continue
		cmd = build_cmd(path + ".tmp", v, sanitize)
		jobs[v] = (cmd, subprocess.Popen(cmd, stdout=subprocess.PIPE, stderr=subprocess.STDOUT, text=True))
	errors = []
	for v, (cmd, p) in jobs.items():
		txt = p.communicate()[0]
		if p.returncode != 0:
			errors.append("C build of trxcon driver (%s) failed:\n%s\n%s" % (v, " ".join(cmd), txt[-4000:]))
		else:
			os.replace(out[v] + ".tmp", out[v])
	if errors:
		raise RuntimeError("\n".join(errors))
	return out


class Symbolizer:
	"""Resolves the "(<binary>+0x<offset>)" frames of an unsymbolized sanitizer report with
	addr2line and rewrites them the way the sanitizer would have printed them ("in <function>
	<file>:<line>", inlined frames expanded, innermost first).  Offsets are memoised per binary,
	so only the first report of a kind costs an addr2line run.  Falls back to the raw text if
	addr2line is not available."""

	def __init__(self):
		self.cache = {}

	def _resolve(self, path, offs):
		missing = [o for o in offs if (path, o) not in self.cache]
		if missing:
			try:
				p = subprocess.run(["addr2line", "-f", "-i", "-a", "-e", path] + missing,
					stdout=subprocess.PIPE, stderr=subprocess.DEVNULL, text=True, timeout=30)
				cur = None
				lines = p.stdout.splitlines()
				i = 0
				while i < len(lines):
					ln = lines[i]
					if ln.startswith("0x") and ":" not in ln:
						cur = "0x%x" % int(ln, 16)
						self.cache[(path, cur)] = []
						i += 1
						continue
					if cur is not None and i + 1 < len(lines):
						self.cache[(path, cur)].append((ln.strip(), lines[i + 1].strip()))
					i += 2
			except Exception:
				pass
			for o in missing:
				self.cache.setdefault((path, o), [])

	def symbolize(self, path, text):
		marker = "(%s+0x" % path
		if marker not in text:
			return text
		offs = []
		for ln in text.splitlines():
			j = ln.find(marker)
			if j >= 0:
				o = "0x%x" % int(ln[j + len(marker) - 2:].split(")")[0], 16)
				if o not in offs:
					offs.append(o)
		self._resolve(path, offs)
		out = []
		for ln in text.splitlines():
			j = ln.find(marker)
			if j < 0:
				out.append(ln)
				continue
			o = "0x%x" % int(ln[j + len(marker) - 2:].split(")")[0], 16)
			frames = self.cache.get((path, o)) or []
			if not frames or " in " in ln[:j]:
				out.append(ln)
				continue
			head = ln[:j].rstrip()
			for func, where in frames:
				out.append("%s in %s %s" % (head, func, where))
		return "\n".join(out)


class Crashed(Exception):
	"""The driver process died (sanitizer report, fatal signal, assertion) or hung while
	serving a request."""

	def __init__(self, request, returncode, stderr, events, hung=False):
		self.request = request
		self.returncode = returncode
		self.signal = -returncode if returncode is not None and returncode < 0 else None
		self.hung = hung
		self.stderr = stderr          # tail of the child's stderr (sanitizer report)
		self.events = events          # events received before it died
		Exception.__init__(self, "trxcon driver %s during %r" % (self.how(), request[:80]))

	def how(self):
		if self.hung:
			return "hung (killed)"
		if self.signal is not None:
			try:
				return "killed by %s" % signal.Signals(self.signal).name
			except ValueError:
				return "killed by signal %d" % self.signal
		return "exited with status %s" % self.returncode

	def kind(self):
		"""Short, stable classification of the death: the sanitizer's error kind, 'leak',
		'ubsan', 'assert', the signal name, 'hang' or 'exit<N>'."""
		return classify_report(self.stderr, self.returncode, self.hung)[0]

	def frame(self):
		"""Innermost function of trx_if.c in the report's first stack trace ('' if none)."""
		return classify_report(self.stderr, self.returncode, self.hung)[1]


def classify_report(stderr, returncode, hung=False):
	"""(kind, frame): kind = sanitizer error kind / 'leak' / 'ubsan' / 'assert' / signal name /
	'hang' / 'exit<N>'; frame = innermost trx_if.c function of the first stack trace that has
	one (file:line for UBSan one-liners without a trace), '' if none."""
	kind = ""
	traces = []
	cur = None
	lines = stderr.splitlines()
	for ln in lines:
		s = ln.strip()
		if not kind:
			if "ERROR: AddressSanitizer:" in s:
				kind = s.split("ERROR: AddressSanitizer:", 1)[1].split()[0]
				if kind == "attempting":
					kind = "double-free" if "double-free" in s else "bad-free"
			elif "ERROR: LeakSanitizer:" in s:
				kind = "leak"
			elif "runtime error:" in s:
				kind = "ubsan"
			elif s.startswith("SHIM: Assert failed"):
				kind = "assert"
			elif s.startswith("SHIM: talloc_free()"):
				kind = "bad-talloc-free"
		if s[:1] == "#" and s[1:2].isdigit():
			if cur is None:
				cur = []
				traces.append(cur)
			cur.append(s)
		else:
			cur = None
	frame = ""
	for tr in traces:
		for fr in tr:
			if "trx_if.c" in fr and " in " in fr:
				frame = fr.split(" in ", 1)[1].split()[0]
				break
		if frame:
			break
	if not frame:
		for ln in lines:
			if "trx_if.c:" in ln and "runtime error:" in ln:
				frame = "trx_if.c:" + ln.split("trx_if.c:", 1)[1].split(":")[0]
				break
	if not kind:
		if hung:
			kind = "hang"
		elif returncode is not None and returncode < 0:
			try:
				kind = signal.Signals(-returncode).name
			except ValueError:
				kind = "signal%d" % -returncode
		else:
			kind = "exit%s" % returncode
	return kind, frame


def parse_event(line):
	name = line.split(" ", 1)[0]
	n = _TEXT_EVENTS.get(name)
	if n is not None:
		return line.split(" ", n)
	return line.split(" ")


class Reply(list):
	"""List of events ([name, arg, ...] lists of str) of one request; .ok tells whether the
	request was accepted, .err carries the driver's refusal text otherwise."""
	ok = True
	err = None

	def named(self, name):
		return [e for e in self if e[0] == name]

	def first(self, name):
		for e in self:
			if e[0] == name:
				return e
		return None


class TrxconProc:
	def __init__(self, path, timeout=20.0, leak_check=True, extra_env=None, symbolizer=None):
		self.path = path
		self.timeout = timeout
		self.symbolizer = symbolizer if symbolizer is not None else Symbolizer()
		self.requests = 0
		self._buf = b""
		self._dead = None
		env = {
			"ASAN_OPTIONS": ASAN_OPTIONS if leak_check else ASAN_OPTIONS.replace("detect_leaks=1", "detect_leaks=0"),
			"UBSAN_OPTIONS": UBSAN_OPTIONS,
			"PATH": os.environ.get("PATH", "/usr/bin:/bin"),
			"LC_ALL": "C",
		}
		if extra_env:
			env.update(extra_env)
		# stderr goes to an unlinked file: a long sanitizer report can never block the child
		self._errf = tempfile.TemporaryFile(prefix="vp-trxcon-err.")
		self.proc = subprocess.Popen([path], stdin=subprocess.PIPE, stdout=subprocess.PIPE,
			stderr=self._errf, env=env, close_fds=True, bufsize=0)
		self._out = self.proc.stdout.fileno()

	# ------------------------------------------------------------------
	def alive(self):
		return self._dead is None and self.proc.poll() is None

	def _stderr_tail(self, limit=12000):
		try:
			self._errf.flush()
			size = self._errf.seek(0, 2)
			self._errf.seek(max(0, size - limit))
			text = self._errf.read().decode("utf-8", "replace")
			return self.symbolizer.symbolize(self.path, text) if text else text
		except Exception as e:  # pragma: no cover
			return "<stderr unavailable: %r>" % (e,)

	def _died(self, request, events, hung=False):
		if hung:
			self.proc.kill()
		try:
			rc = self.proc.wait(timeout=10)
		except subprocess.TimeoutExpired:
			self.proc.kill()
			rc = self.proc.wait()
			hung = True
		self._dead = Crashed(request, rc, self._stderr_tail(), events, hung=hung)
		self._release()
		return self._dead

	def _release(self):
		for f in (self.proc.stdin, self.proc.stdout, self._errf):
			try:
				if f is not None:
					f.close()
			except Exception:
				pass

	def _readline(self, deadline):
		while True:
			i = self._buf.find(b"\n")
			if i >= 0:
				ln = self._buf[:i]
				self._buf = self._buf[i + 1:]
				return ln
			left = deadline - time.monotonic()
			if left <= 0:
				return None
			r, _w, _x = select.select([self._out], [], [], left)
			if not r:
				return None
			chunk = os.read(self._out, 1 << 16)
			if not chunk:
				return b""            # EOF
			self._buf += chunk

	def request(self, line):
		"""Send one request line, return the Reply (list of events) once the driver said `ok`
		or `err`.  Raises Crashed if the process dies or hangs before that."""
		if self._dead is not None:
			raise self._dead
		if isinstance(line, str):
			data = line.encode("ascii")
		else:
			data = bytes(line)
			line = data.decode("ascii", "replace")
		self.requests += 1
		events = Reply()
		try:
			self.proc.stdin.write(data + b"\n")
		except (BrokenPipeError, OSError):
			raise self._died(line, events)
		deadline = time.monotonic() + self.timeout
		while True:
			ln = self._readline(deadline)
			if ln is None:
				raise self._died(line, events, hung=True)
			if ln == b"":
				if self._buf:
					# partial last line of a dying process
					events.append(parse_event(self._buf.decode("ascii", "replace")))
					self._buf = b""
				raise self._died(line, events)
			s = ln.decode("ascii", "replace")
			if s == "ok":
				return events
			if s.startswith("err ") or s == "err":
				events.ok = False
				events.err = s[4:]
				return events
			events.append(parse_event(s))

	def close(self):
		"""Orderly shutdown: `quit` (the driver closes the instance and releases everything), then
		the sanitizer's leak check runs at exit.  Returns (returncode, stderr_tail); returncode 0
		means a clean exit.  Safe to call on a dead process (returns what it died of)."""
		if self._dead is not None:
			return self._dead.returncode, self._dead.stderr
		try:
			self.request("quit")
		except Crashed as c:
			return c.returncode, c.stderr
		try:
			self.proc.stdin.close()
		except Exception:
			pass
		try:
			rc = self.proc.wait(timeout=self.timeout)
		except subprocess.TimeoutExpired:
			self.proc.kill()
			rc = self.proc.wait()
		err = self._stderr_tail()
		self._dead = Crashed("quit", rc, err, Reply())
		self._release()
		return rc, err

	def kill(self):
		if self._dead is None:
			self.proc.kill()
			rc = self.proc.wait()
			self._dead = Crashed("kill", rc, "", Reply())
			self._release()

	def __enter__(self):
		return self

	def __exit__(self, *a):
		self.close()
		return False


def hexs(b):
	"""bytes -> protocol hex ('-' for empty)"""
	return b.hex() if b else "-"


def unhex(s):
	return b"" if s == "-" else bytes.fromhex(s)
