# Import the real trx_toolkit modules from $VERIF_REPO and capture their log records.

import importlib
import importlib.abc
import importlib.util
import logging
import os
import sys

REPO = os.environ.get("VERIF_REPO", "/repo")
TK_DIR = os.path.join(REPO, "src", "target", "trx_toolkit")

_mods = {}
_code = {}   # module name -> compiled code object (source compiled once per process)


class _Finder(importlib.abc.MetaPathFinder, importlib.abc.Loader):
	"""Imports toolkit modules from $VERIF_REPO by executing a cached code object, so that
	`reset()` can hand every simulated run FRESH module objects (class attributes, module-level
	caches and iterators start from scratch: state that leaks from one run into the next would
	make runs depend on what the worker process executed before) at the cost of re-executing
	the module bodies only, not of re-compiling them."""

	def find_spec(self, name, path=None, target=None):
		if "." in name:
			return None
		fn = os.path.join(TK_DIR, name + ".py")
		if not os.path.isfile(fn):
			return None
		return importlib.util.spec_from_file_location(name, fn, loader=self)

	def create_module(self, spec):
		return None

	def exec_module(self, module):
		name = module.__name__
		code = _code.get(name)
		if code is None:
			fn = os.path.join(TK_DIR, name + ".py")
			with open(fn, "rb") as f:
				code = compile(f.read(), fn, "exec", dont_inherit=True)
			_code[name] = code
		exec(code, module.__dict__)


_finder = _Finder()


_names = []


def _toolkit_names():
	if not _names:
		_names.extend(f[:-3] for f in os.listdir(TK_DIR) if f.endswith(".py"))
	return _names


def tk(name):
	"""Return the toolkit module `name`, imported from the repository's working tree."""
	m = _mods.get(name)
	if m is None:
		if _finder not in sys.meta_path:
			sys.meta_path.insert(0, _finder)
		if TK_DIR not in sys.path:
			sys.path.insert(0, TK_DIR)
		sys.dont_write_bytecode = True
		m = importlib.import_module(name)
		f = getattr(m, "__file__", "") or ""
		if not os.path.abspath(f).startswith(os.path.abspath(TK_DIR)):
			raise RuntimeError("module %s was imported from %s, not from %s" % (name, f, TK_DIR))
		_mods[name] = m
	return m


def reset():
	"""Forget every toolkit module: the next tk() gives fresh module objects."""
	for name in list(_mods):
		sys.modules.pop(name, None)
	for name in _toolkit_names():
		sys.modules.pop(name, None)
	_mods.clear()


class _Capture(logging.Handler):
	def __init__(self):
		logging.Handler.__init__(self)
		self.sink = None

	def emit(self, record):
		s = self.sink
		if s is not None:
			try:
				msg = record.getMessage()
			except Exception as e:  # a broken format string in the code under test
				msg = "<log format error %r: %r %% %r>" % (e, record.msg, record.args)
			s(record.levelname, record.filename, msg)


_capture = _Capture()
_installed = False


def capture_logs(sink, level=logging.WARNING):
	"""Route every toolkit log record of at least `level` to sink(levelname, filename, msg)."""
	global _installed
	root = logging.getLogger()
	if not _installed:
		for h in list(root.handlers):
			root.removeHandler(h)
		root.addHandler(_capture)
		_installed = True
		logging.raiseExceptions = False
	root.setLevel(level)
	_capture.setLevel(level)
	_capture.sink = sink


def release_logs():
	_capture.sink = None
