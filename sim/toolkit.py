# Import the real trx_toolkit modules from $VERIF_REPO and capture their log records.

import importlib
import logging
import os
import sys

REPO = os.environ.get("VERIF_REPO", "/repo")
TK_DIR = os.path.join(REPO, "src", "target", "trx_toolkit")

_mods = {}


def tk(name):
	"""Return the toolkit module `name`, imported from the repository's working tree."""
	m = _mods.get(name)
	if m is None:
		if TK_DIR not in sys.path:
			sys.path.insert(0, TK_DIR)
		sys.dont_write_bytecode = True
		m = importlib.import_module(name)
		f = getattr(m, "__file__", "") or ""
		if not os.path.abspath(f).startswith(os.path.abspath(TK_DIR)):
			raise RuntimeError("module %s was imported from %s, not from %s" % (name, f, TK_DIR))
		_mods[name] = m
	return m


class _Capture(logging.Handler):
	def __init__(self):
		logging.Handler.__init__(self)
		self.sink = None

	def emit(self, record):
		s = self.sink
		if s is not None:
			try:
				msg = record.getMessage()
			except Exception as e:  # a broken format string in the code under test
				msg = "<log format error %r: %r %% %r>" % (e, record.msg, record.args)
			s(record.levelname, record.filename, msg)


_capture = _Capture()
_installed = False


def capture_logs(sink, level=logging.WARNING):
	"""Route every toolkit log record of at least `level` to sink(levelname, filename, msg)."""
	global _installed
	root = logging.getLogger()
	if not _installed:
		for h in list(root.handlers):
			root.removeHandler(h)
		root.addHandler(_capture)
		_installed = True
		logging.raiseExceptions = False
	root.setLevel(level)
	_capture.setLevel(level)
	_capture.sink = sink


def release_logs():
	_capture.sink = None
