# Reference codec: the trusted base of the `um` oracles.  Written from the protocol
# descriptions (TRXD/TRXC comment blocks in trx_if.c, docstrings of the toolkit, 3GPP TS 45.002
# §5.2 / §6.2.3 as quoted in rfch.c), NOT by importing data_msg.py / gsm_shared.py.
# Cross-validated against independent in-tree C by `bin/selftest refbase` (development-time).

import struct

HYPER = 2715648
GMSK_LEN = 148
EDGE_LEN = 444

# ---------------------------------------------------------------- TRXD ----------------


def enc_tx(ver, tn, fn, pwr, bits):
	"""L1 -> TRX: (ver<<4 | tn), fn (u32 BE), attenuation octet, hard bits one per octet."""
	return bytes([((ver & 0xf) << 4) | (tn & 7)]) + struct.pack(">L", fn) + bytes([pwr & 0xff]) + bytes(bits)


def dec_tx(data):
	"""What an L1->TRX datagram means, or None if it is not a TRXD Tx message this
	transceiver family understands (versions 0 and 1)."""
	if len(data) < 6:
		return None
	ver = data[0] >> 4
	if ver not in (0, 1):
		return None
	tn = data[0] & 7
	fn = struct.unpack(">L", data[1:5])[0]
	pwr = data[5]
	bits = data[6:]
	if len(bits) >= EDGE_LEN:
		bits = bits[:EDGE_LEN]
	elif len(bits) > GMSK_LEN:
		bits = bits[:GMSK_LEN]
	return {"ver": ver, "tn": tn, "fn": fn, "pwr": pwr, "bits": bytes(bits)}


MOD_BY_CODE = {0b0000: ("GMSK", 148), 0b0100: ("8PSK", 444), 0b0110: ("GMSK_AB", 148),
	0b1000: ("16QAM", 592), 0b1010: ("32QAM", 740), 0b1100: ("AQPSK", 296)}


def dec_rx(data):
	"""TRX -> L1 datagram, strictly per the layout.  Returns a dict or raises ValueError."""
	if len(data) < 8:
		raise ValueError("short")
	ver = data[0] >> 4
	out = {"ver": ver, "tn": data[0] & 7, "fn": struct.unpack(">L", data[1:5])[0],
		"rssi": -data[5], "toa256": struct.unpack(">h", data[6:8])[0], "spare": data[0] & 0x08}
	if ver == 0:
		body = data[8:]
		out["hdr_len"] = 8
	elif ver == 1:
		if len(data) < 11:
			raise ValueError("short v1")
		mts = data[8]
		out["mts"] = mts
		out["ci"] = struct.unpack(">h", data[9:11])[0]
		out["nope"] = bool(mts & 0x80)
		if not out["nope"]:
			out["tsc"] = mts & 7
			m = (mts >> 3) & 0xf
			if m & 0b1100:
				out["mod"] = MOD_BY_CODE.get(m & 0b1110, ("?", None))[0]
				out["tsc_set"] = m & 1
			else:
				out["mod"] = "GMSK"
				out["tsc_set"] = m & 3
		body = data[11:]
		out["hdr_len"] = 11
	else:
		raise ValueError("version %d" % ver)
	out["body"] = bytes(body)
	return out


# ---------------------------------------------------------------- hopping -------------
RNTABLE = [
	48, 98, 63, 1, 36, 95, 78, 102, 94, 73, 0, 64, 25, 81, 76, 59, 124, 23, 104, 100,
	101, 47, 118, 85, 18, 56, 96, 86, 54, 2, 80, 34, 127, 13, 6, 89, 57, 103, 12, 74,
	55, 111, 75, 38, 109, 71, 112, 29, 11, 88, 87, 19, 3, 68, 110, 26, 33, 31, 8, 45,
	82, 58, 40, 107, 32, 5, 106, 92, 62, 67, 77, 108, 122, 37, 60, 66, 121, 42, 51, 126,
	117, 114, 4, 90, 43, 52, 53, 113, 120, 72, 16, 49, 7, 79, 119, 61, 22, 84, 9, 97,
	91, 15, 21, 24, 46, 39, 93, 105, 65, 70, 125, 99, 17, 123,
]


def hop_mai(hsn, maio, n, fn):
	"""Mobile Allocation Index per 3GPP TS 45.002 §6.2.3."""
	if hsn == 0:
		return (fn + maio) % n
	t1r = (fn // 1326) % 64
	t2 = fn % 26
	t3 = fn % 51
	nbin = max(1, (n).bit_length())  # NBIN = INTEGER(log2(N) + 1)
	mask = (1 << nbin) - 1
	m = t2 + RNTABLE[(hsn ^ t1r) + t3]
	mp = m % (1 << nbin)
	tp = t3 % (1 << nbin)
	if mp < n:
		s = mp
	else:
		s = (mp + tp) % n
	return (s + maio) % n


# ---------------------------------------------------------------- training sequences --
# (tsc, burst type, bits).  NB (TSC set 1) and AB TS0-2 agree with trxcon's C tables
# (sched_lchan_common.c, sched_lchan_rach.c); the remaining AB/SB sequences have no second
# source in the tree and are recorded here as of the pinned commit.
_TS = [
	(0, "AB", "01001011011111111001100110101010001111000"),
	(1, "AB", "01010100111110001000011000101111001001101"),
	(2, "AB", "11101111001001110101011000001101101110111"),
	(4, "AB", "11001001110001001110000000001101010110010"),
	(3, "AB", "10001000111010111011010000010000101100010"),
	(5, "AB", "01010000111111110101110101101100110010100"),
	(6, "AB", "01011110011101011110110100010011000010111"),
	(7, "AB", "01000010110000011101001010111011100010000"),
	(0, "SB", "1011100101100010000001000000111100101101010001010111011000011011"),
	(1, "SB", "1110111001101011001010000011111011110100011111101100101100010101"),
	(2, "SB", "1110110000110111010100010101101001111000000100000010001101001110"),
	(3, "SB", "1011101000111101110101101111010010001011010000001000111010011000"),
	(0, "NB", "00100101110000100010010111"),
	(1, "NB", "00101101110111100010110111"),
	(2, "NB", "01000011101110100100001110"),
	(3, "NB", "01000111101101000100011110"),
	(4, "NB", "00011010111001000001101011"),
	(5, "NB", "01001110101100000100111010"),
	(6, "NB", "10100111110110001010011111"),
	(7, "NB", "11101111000100101110111100"),
]
TS = [(tsc, bt, bytes(int(c) for c in s)) for tsc, bt, s in _TS]
TS_POS = {"NB": 3 + 57 + 1, "AB": 8, "SB": 3 + 39}


def ts_candidates(bits):
	"""All (tsc, tsc_set, burst type) whose training sequence sits at its 3GPP position."""
	out = []
	for tsc, bt, seq in TS:
		p = TS_POS[bt]
		if bytes(bits[p:p + len(seq)]) == seq:
			out.append((tsc, 0, bt))
	return out


def gen_burst(rng, kind, tsc=None):
	"""Reference burst generator (NB/SB/AB with a training sequence, FB, random)."""
	rb = lambda n: [rng.getrandbits(1) for _ in range(n)]
	if kind in ("NB", "SB", "AB"):
		cands = [t for t in TS if t[1] == kind and (tsc is None or t[0] == tsc)]
		seq = list(rng.choice(cands)[2])
	if kind == "NB":
		b = [0] * 3 + rb(57) + rb(1) + seq + rb(1) + rb(57) + [0] * 3
	elif kind == "SB":
		b = [0] * 3 + rb(39) + seq + rb(39) + [0] * 3
	elif kind == "AB":
		b = [0] * 8 + seq + rb(36) + [0] * 3 + [0] * 60
	elif kind == "FB":
		b = [0] * 148
	elif kind == "EDGE":
		b = rb(444)
	else:
		b = rb(148)
	return bytes(b)


# ---------------------------------------------------------------- TRXC ----------------
def parse_cmd(data):
	"""A control datagram: returns (verb, [args]) if it begins with 'CMD', else None.
	Raises UnicodeDecodeError for non-text input (callers decide what that means)."""
	text = data.decode()
	if not text.startswith("CMD"):
		return None
	body = text[4:].strip().strip("\0")
	parts = body.split(" ")
	return parts[0], parts[1:]
