/* Harness around one instance of the real sercomm.c (property C06).
 *
 * Linked into a shared object together with the UNMODIFIED sercomm.c, msgb.c and talloc.c of
 * the repository.  Two such objects are built per check invocation: one with -DHOST_BUILD
 * (osmocon's configuration, 2048 octet receive buffer, no-op lock) and one in the target
 * configuration (256 octet receive buffer, lock = local_firq_save/local_irq_restore, which the
 * shim <asm/system.h> maps to hx_irq_save/hx_irq_restore below; uart_irq_enable() is
 * implemented here).  Each object has its own static state; the engine loads a fresh copy
 * per run.
 *
 * What the harness adds, and nothing more:
 *   - osmo_panic() / talloc abort: recorded in a flag, then longjmp back to the wrapper that
 *     was entered from Python, so that MSGB_ABORT never continues into the overrun it
 *     announces and the process is never aborted; SIGSEGV/SIGBUS raised while one of the
 *     wrappers is active are treated the same way (handlers installed by hx_init, removed
 *     by hx_fini; objects must be finalised in reverse order of initialisation);
 *   - malloc/free/realloc/calloc of the whole object are wrapped (ld --wrap): every block gets
 *     guard zones in front and behind, freed blocks are poisoned and kept in quarantine until
 *     the end of the run; hx_mem_check() verifies guards and poison;
 *   - a receive callback that logs (position in the fed octet stream, dlci, payload) and
 *     frees the msgb;
 *   - the simulated UART TX interrupt for the target build: while sercomm_sendmsg() runs, up to
 *     k0/k1/k2 octets are pulled at the three points where interrupts are enabled (on entry
 *     to local_firq_save, after local_irq_restore, inside uart_irq_enable);
 *   - lock balance accounting.
 */

#include <stdint.h>
#include <stdio.h>
#include <stdlib.h>
#include <string.h>
#include <stdarg.h>
#include <setjmp.h>
#include <signal.h>
#include <errno.h>

#include <osmocom/core/msgb.h>
#include <osmocom/core/talloc.h>
#include <osmocom/core/panic.h>

#ifdef HOST_BUILD
# include <sercomm.h>
#else
# include <comm/sercomm.h>
# include <uart.h>
#endif

#define EXPORT __attribute__((visibility("default")))

/* ------------------------------------------------------------------ panic handling ---- */

static jmp_buf hx_jmp;
static int hx_jmp_active;
static int hx_panic_flag;
static char hx_panic_text[256];

static void hx_record_panic(const char *fmt, va_list ap)
{
	if (!hx_panic_flag)
		vsnprintf(hx_panic_text, sizeof(hx_panic_text), fmt, ap);
	hx_panic_flag = 1;
}

static void hx_panic_str(const char *fmt, ...)
{
	va_list ap;
	va_start(ap, fmt);
	hx_record_panic(fmt, ap);
	va_end(ap);
}

/* replaces libosmocore's panic.c */
void osmo_panic(const char *fmt, ...)
{
	va_list ap;
	va_start(ap, fmt);
	hx_record_panic(fmt, ap);
	va_end(ap);
	if (hx_jmp_active)
		longjmp(hx_jmp, 1);
}

void osmo_set_panic_handler(osmo_panic_handler_t h)
{
	(void) h;
}

static void hx_talloc_abort(const char *reason)
{
	hx_panic_str("talloc abort: %s", reason);
	if (hx_jmp_active)
		longjmp(hx_jmp, 1);
}

/* a wild access inside the code under test: same treatment as a panic */
static struct sigaction hx_old_segv, hx_old_bus;
static int hx_sig_installed;

static void hx_sig_restore(void)
{
	if (hx_sig_installed) {
		sigaction(SIGSEGV, &hx_old_segv, NULL);
		sigaction(SIGBUS, &hx_old_bus, NULL);
		hx_sig_installed = 0;
	}
}

static void hx_sig_handler(int sig, siginfo_t *si, void *uc)
{
	(void) si;
	(void) uc;
	if (hx_jmp_active) {
		hx_panic_str("signal %d: invalid memory access inside the code under test", sig);
		longjmp(hx_jmp, 1);
	}
	/* not ours: hand back to whoever was installed before and let the access fault again */
	hx_sig_restore();
}

static void hx_sig_install(void)
{
	struct sigaction sa;

	memset(&sa, 0, sizeof(sa));
	sa.sa_sigaction = hx_sig_handler;
	sa.sa_flags = SA_SIGINFO | SA_NODEFER;
	sigemptyset(&sa.sa_mask);
	sigaction(SIGSEGV, &sa, &hx_old_segv);
	sigaction(SIGBUS, &sa, &hx_old_bus);
	hx_sig_installed = 1;
}

EXPORT int hx_panicked(void)
{
	return hx_panic_flag;
}

EXPORT const char *hx_panic_msg(void)
{
	return hx_panic_text;
}

/* ------------------------------------------------------------------ guarded allocator -- */

#ifndef HX_NOWRAP

void *__real_malloc(size_t n);
void __real_free(void *p);

#define HX_GUARD	64
#define HX_HDR		16
#define HX_MAX_ALLOCS	16384
#define HX_GUARD_BYTE	0xC5
#define HX_POISON_BYTE	0xDD

struct hx_alloc {
	uint8_t *base;
	size_t size;
	int freed;
};

static struct hx_alloc hx_allocs[HX_MAX_ALLOCS];
static unsigned int hx_nallocs;
static int hx_mem_err;
static char hx_mem_text[160];

static void hx_mem_fail(const char *what, unsigned int idx, long off)
{
	if (!hx_mem_err)
		snprintf(hx_mem_text, sizeof(hx_mem_text), "%s (block %u of %lu octets, offset %ld)",
			 what, idx, idx < hx_nallocs ? (unsigned long) hx_allocs[idx].size : 0UL, off);
	hx_mem_err = 1;
}

void *__wrap_malloc(size_t n)
{
	uint8_t *base;
	unsigned int idx = hx_nallocs;

	if (idx >= HX_MAX_ALLOCS) {
		hx_mem_fail("harness allocation table full", idx, 0);
		return NULL;
	}
	base = __real_malloc(HX_HDR + HX_GUARD + n + HX_GUARD);
	if (!base)
		return NULL;
	memcpy(base, &idx, sizeof(idx));
	memset(base + HX_HDR, HX_GUARD_BYTE, HX_GUARD);
	memset(base + HX_HDR + HX_GUARD + n, HX_GUARD_BYTE, HX_GUARD);
	hx_allocs[idx].base = base;
	hx_allocs[idx].size = n;
	hx_allocs[idx].freed = 0;
	hx_nallocs++;
	return base + HX_HDR + HX_GUARD;
}

static struct hx_alloc *hx_find(void *p)
{
	uint8_t *base = (uint8_t *) p - HX_GUARD - HX_HDR;
	unsigned int idx;

	memcpy(&idx, base, sizeof(idx));
	if (idx >= hx_nallocs || hx_allocs[idx].base != base) {
		/* header destroyed or foreign pointer: search */
		for (idx = 0; idx < hx_nallocs; idx++)
			if (hx_allocs[idx].base == base)
				return &hx_allocs[idx];
		return NULL;
	}
	return &hx_allocs[idx];
}

void __wrap_free(void *p)
{
	struct hx_alloc *a;

	if (!p)
		return;
	a = hx_find(p);
	if (!a) {
		hx_mem_fail("free of a pointer that was never allocated", HX_MAX_ALLOCS, 0);
		return;
	}
	if (a->freed) {
		hx_mem_fail("double free", (unsigned int) (a - hx_allocs), 0);
		return;
	}
	a->freed = 1;
	memset(p, HX_POISON_BYTE, a->size);
}

void *__wrap_calloc(size_t a, size_t b)
{
	void *p = __wrap_malloc(a * b);
	if (p)
		memset(p, 0, a * b);
	return p;
}

void *__wrap_realloc(void *p, size_t n)
{
	struct hx_alloc *a;
	void *q;

	if (!p)
		return __wrap_malloc(n);
	a = hx_find(p);
	if (!a || a->freed) {
		hx_mem_fail("realloc of a bad pointer", HX_MAX_ALLOCS, 0);
		return NULL;
	}
	q = __wrap_malloc(n);
	if (!q)
		return NULL;
	memcpy(q, p, a->size < n ? a->size : n);
	__wrap_free(p);
	return q;
}

/* 0 = all guard zones intact and no freed block written to */
EXPORT int hx_mem_check(void)
{
	unsigned int i;
	size_t k;

	for (i = 0; i < hx_nallocs && !hx_mem_err; i++) {
		struct hx_alloc *a = &hx_allocs[i];
		uint8_t *g0 = a->base + HX_HDR;
		uint8_t *body = g0 + HX_GUARD;
		uint8_t *g1 = body + a->size;

		for (k = 0; k < HX_GUARD; k++) {
			if (g0[k] != HX_GUARD_BYTE) {
				hx_mem_fail("write in front of a heap block", i, (long) k - HX_GUARD);
				break;
			}
			if (g1[k] != HX_GUARD_BYTE) {
				hx_mem_fail("write behind a heap block", i, (long) (a->size + k));
				break;
			}
		}
		if (a->freed && !hx_mem_err) {
			for (k = 0; k < a->size; k++)
				if (body[k] != HX_POISON_BYTE) {
					hx_mem_fail("write into a freed heap block", i, (long) k);
					break;
				}
		}
	}
	return hx_mem_err;
}

EXPORT const char *hx_mem_msg(void)
{
	return hx_mem_text;
}

/* number of blocks still allocated (information only) */
EXPORT int hx_mem_live(void)
{
	unsigned int i;
	int n = 0;

	for (i = 0; i < hx_nallocs; i++)
		if (!hx_allocs[i].freed)
			n++;
	return n;
}

/* give everything back to the C library; the object is unloaded afterwards */
EXPORT void hx_fini(void)
{
	unsigned int i;

	hx_sig_restore();
	for (i = 0; i < hx_nallocs; i++) {
		__real_free(hx_allocs[i].base);
		hx_allocs[i].base = NULL;
	}
	hx_nallocs = 0;
}

#else /* HX_NOWRAP: the address sanitizer watches the heap instead */

EXPORT int hx_mem_check(void) { return 0; }
EXPORT const char *hx_mem_msg(void) { return ""; }
EXPORT int hx_mem_live(void) { return 0; }
EXPORT void hx_fini(void) { hx_sig_restore(); }

/* if the sanitizer runtime is present and was told not to halt (ASAN_OPTIONS=halt_on_error=0),
 * turn its report into the panic flag */
extern void __asan_set_error_report_callback(void (*cb)(const char *)) __attribute__((weak));

static void hx_asan_report(const char *text)
{
	hx_panic_str("sanitizer: %.200s", text);
}

#endif

/* ------------------------------------------------------------------ lock + UART shim --- */

#define HX_FLAGS_COOKIE	0x5EC0DE00UL

static int hx_lock_depth_v;
static int hx_lock_errs;
static int hx_lock_calls_v;

static int hx_in_sendmsg;
static int hx_in_irq;
static int hx_irq_point_done[3];
static int hx_irq_budget[3];
static int hx_irq_got_v[3];
static uint8_t hx_irq_buf[4096];
static int hx_irq_len;

static int hx_uart_armed_v;
static int hx_uart_bad_v;
static int hx_pull_badret;

#ifndef HOST_BUILD

#define HX_UART_ID	UART_MODEM

static void hx_deliver_irq(int point)
{
	int k;

	if (!hx_in_sendmsg || hx_in_irq || hx_irq_point_done[point])
		return;
	hx_irq_point_done[point] = 1;
	hx_in_irq = 1;
	for (k = 0; k < hx_irq_budget[point]; k++) {
		uint8_t ch;
		int r;

		if (hx_irq_len >= (int) sizeof(hx_irq_buf))
			break;
		r = sercomm_drv_pull(&ch);
		if (r == 0)
			break;
		if (r != 1)
			hx_pull_badret++;
		hx_irq_buf[hx_irq_len++] = ch;
		hx_irq_got_v[point]++;
	}
	hx_in_irq = 0;
}

unsigned long hx_irq_save(void)
{
	/* interrupts are still enabled when the instruction is reached */
	if (hx_lock_depth_v == 0)
		hx_deliver_irq(0);
	hx_lock_depth_v++;
	hx_lock_calls_v++;
	return HX_FLAGS_COOKIE + (unsigned long) hx_lock_depth_v;
}

void hx_irq_restore(unsigned long flags)
{
	if (hx_lock_depth_v <= 0) {
		hx_lock_errs++;
		return;
	}
	if (flags != HX_FLAGS_COOKIE + (unsigned long) hx_lock_depth_v)
		hx_lock_errs++;
	hx_lock_depth_v--;
	/* interrupts are enabled again from here on */
	if (hx_lock_depth_v == 0)
		hx_deliver_irq(1);
}

void uart_irq_enable(uint8_t uart, enum uart_irq irq, int on)
{
	if (uart == HX_UART_ID && irq == UART_IRQ_TX_EMPTY && on == 1)
		hx_uart_armed_v++;
	else
		hx_uart_bad_v++;
	if (hx_lock_depth_v == 0)
		hx_deliver_irq(2);
}

#endif /* !HOST_BUILD */

EXPORT int hx_lock_errors(void)
{
	return hx_lock_errs;
}

EXPORT int hx_lock_depth(void)
{
	return hx_lock_depth_v;
}

EXPORT int hx_lock_calls(void)
{
	return hx_lock_calls_v;
}

EXPORT int hx_uart_armed(void)
{
	return hx_uart_armed_v;
}

EXPORT int hx_uart_bad(void)
{
	return hx_uart_bad_v;
}

EXPORT int hx_pull_bad_return(void)
{
	return hx_pull_badret;
}

EXPORT void hx_set_irq(int k0, int k1, int k2)
{
	hx_irq_budget[0] = k0;
	hx_irq_budget[1] = k1;
	hx_irq_budget[2] = k2;
}

EXPORT const uint8_t *hx_irq_ptr(void)
{
	return hx_irq_buf;
}

EXPORT int hx_irq_got(int point)
{
	return hx_irq_got_v[point];
}

/* ------------------------------------------------------------------ receive log -------- */

#define HX_LOG_CAP	(512 * 1024)

static uint8_t hx_log[HX_LOG_CAP];
static int hx_log_len_v;
static int hx_log_overflow;
static uint32_t hx_rx_pos;		/* index of the octet currently being fed */
static int hx_rx_zero;			/* sercomm_drv_rx_char() returned 0 (overflow reset) */
static int hx_msg_errs;

static void hx_rx_cb(uint8_t dlci, struct msgb *msg)
{
	unsigned int len = msg->len;

	if (msg->data < msg->head || msg->tail != msg->data + len ||
	    msg->tail > msg->head + msg->data_len)
		hx_msg_errs++;
	if (hx_log_len_v + 7 + (int) len > HX_LOG_CAP) {
		hx_log_overflow = 1;
	} else {
		uint8_t *p = hx_log + hx_log_len_v;
		p[0] = hx_rx_pos & 0xff;
		p[1] = (hx_rx_pos >> 8) & 0xff;
		p[2] = (hx_rx_pos >> 16) & 0xff;
		p[3] = (hx_rx_pos >> 24) & 0xff;
		p[4] = dlci;
		p[5] = len & 0xff;
		p[6] = (len >> 8) & 0xff;
		memcpy(p + 7, msg->data, len);
		hx_log_len_v += 7 + len;
	}
	msgb_free(msg);
}

EXPORT const uint8_t *hx_log_ptr(void)
{
	return hx_log;
}

EXPORT int hx_log_len(void)
{
	return hx_log_len_v;
}

EXPORT void hx_log_clear(void)
{
	hx_log_len_v = 0;
}

EXPORT int hx_log_overflowed(void)
{
	return hx_log_overflow;
}

EXPORT int hx_msg_errors(void)
{
	return hx_msg_errs;
}

EXPORT int hx_rx_resets(void)
{
	return hx_rx_zero;
}

/* ------------------------------------------------------------------ entry points ------- */

#define HX_ENTER(failret)						\
	do {								\
		if (hx_panic_flag)					\
			return failret;					\
		hx_jmp_active = 1;					\
		if (setjmp(hx_jmp)) {					\
			hx_jmp_active = 0;				\
			hx_in_sendmsg = 0;				\
			hx_in_irq = 0;					\
			return failret;					\
		}							\
	} while (0)

#define HX_LEAVE()							\
	do {								\
		hx_jmp_active = 0;					\
		if (hx_lock_depth_v != 0)				\
			hx_lock_errs++;					\
	} while (0)

static int hx_marker;

/* 0 on the first call after the object was mapped: proves that static state is fresh */
EXPORT int hx_fresh(void)
{
	return hx_marker++;
}

EXPORT int hx_rx_bufsize(void)
{
#ifdef HOST_BUILD
	return 2048;	/* for information; the engine derives the size from the build kind */
#else
	return 256;
#endif
}

EXPORT int hx_init(void)
{
	if (!hx_sig_installed)
		hx_sig_install();
	HX_ENTER(-99);
	talloc_set_abort_fn(hx_talloc_abort);
#ifdef HX_NOWRAP
	if (__asan_set_error_report_callback)
		__asan_set_error_report_callback(hx_asan_report);
#endif
	sercomm_init();
#ifndef HOST_BUILD
	sercomm_bind_uart(HX_UART_ID);
#endif
	HX_LEAVE();
	return sercomm_initialized();
}

EXPORT int hx_register(int dlci)
{
	int rc;

	HX_ENTER(-99);
	rc = sercomm_register_rx_cb(dlci, hx_rx_cb);
	HX_LEAVE();
	return rc;
}

/* queue one message; 0 = done, -99 = panic, -12 = no memory */
EXPORT int hx_sendmsg(int dlci, const uint8_t *payload, int len)
{
	struct msgb *msg;

	HX_ENTER(-99);
	hx_irq_len = 0;
	hx_irq_got_v[0] = hx_irq_got_v[1] = hx_irq_got_v[2] = 0;
	hx_irq_point_done[0] = hx_irq_point_done[1] = hx_irq_point_done[2] = 0;
	/* sercomm_alloc_msgb(0) trips the (run-time evaluated) osmo_static_assert in
	 * msgb_alloc_headroom; callers allocate room and put fewer octets (osmocon: 512) */
	msg = sercomm_alloc_msgb(len > 0 ? len : 1);
	if (!msg) {
		HX_LEAVE();
		return -12;
	}
	if (len > 0)
		memcpy(msgb_put(msg, len), payload, len);
	hx_in_sendmsg = 1;
	sercomm_sendmsg(dlci, msg);
	hx_in_sendmsg = 0;
	HX_LEAVE();
	return 0;
}

/* pull up to max octets; returns how many were produced; *idle = 1 when the transmitter said
 * "nothing to send" */
EXPORT int hx_pull(uint8_t *out, int max, int *idle)
{
	int n = 0;

	*idle = 0;
	HX_ENTER(-99);
	while (n < max) {
		uint8_t ch = 0;
		int r = sercomm_drv_pull(&ch);

		if (r == 0) {
			*idle = 1;
			break;
		}
		if (r != 1)
			hx_pull_badret++;
		out[n++] = ch;
	}
	HX_LEAVE();
	return n;
}

/* feed n octets to the receiver; callbacks log the position base+i of the octet that
 * triggered them */
EXPORT int hx_rx_feed(const uint8_t *buf, int n, uint32_t base)
{
	int i;

	HX_ENTER(-99);
	for (i = 0; i < n; i++) {
		hx_rx_pos = base + i;
		if (sercomm_drv_rx_char(buf[i]) == 0)
			hx_rx_zero++;
	}
	HX_LEAVE();
	return n;
}

EXPORT int hx_depth(int dlci)
{
	int d;

	HX_ENTER(-99);
	d = (int) sercomm_tx_queue_depth(dlci);
	HX_LEAVE();
	return d;
}
