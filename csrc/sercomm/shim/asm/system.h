/* Shim for the firmware's <asm/system.h> (ARM cpsr inline assembly) used by the *target*
 * configuration of sercomm.c when it is compiled for the simulation host.  The two
 * primitives sercomm.c uses are mapped to harness callbacks: the harness counts lock
 * balance, checks that the restored flags word is the one that was saved, and uses the
 * points where interrupts are architecturally enabled to deliver the simulated UART TX
 * interrupt (see harness.c).  Nothing else of the real header is needed by sercomm.c. */
#ifndef __ASM_ARM_SYSTEM_H
#define __ASM_ARM_SYSTEM_H

unsigned long hx_irq_save(void);
void hx_irq_restore(unsigned long flags);

/* same type check as the real macro: the argument must be an unsigned long lvalue */
#define local_firq_save(x)				\
	({						\
		unsigned long temp;			\
		(void) (&temp == &x);			\
		(x) = hx_irq_save();			\
	})

#define local_irq_save(x)	local_firq_save(x)

#define local_irq_restore(x)	hx_irq_restore(x)

#endif
