/* development-time cross-check of sim/refcodec.py:hop_mai against the firmware's
 * rfch_hop_seq_gen() (static, hence included as a translation unit) */
#include <stdint.h>
#include <layer1/sync.h>
struct l1s_state l1s;
#include RFCH_C
int ref_hop(uint32_t fn, int hsn, int maio, int n)
{
	struct gsm_time t;
	t.fn = fn;
	t.t1 = fn / (26 * 51);
	t.t2 = fn % 26;
	t.t3 = fn % 51;
	t.tc = (fn / 51) % 8;
	return rfch_hop_seq_gen(&t, hsn, maio, n, NULL);
}
