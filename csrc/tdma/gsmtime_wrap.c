/* Compiles the UNMODIFIED sched_gsmtime.c (path given as -DSCHED_GSMTIME_C="...") with its
 * one call to tdma_schedule_set() routed through a spy in the harness, so that the oracle
 * sees the arguments and the return value sched_gsmtime_execute() throws away.  Being in the
 * same translation unit also gives access to the file's static lists, which is what allows a
 * clean re-initialisation for every simulated run (sched_gsmtime_init() may only be called
 * once on pristine list heads). */

#include <stdint.h>
#include <string.h>

#include <layer1/tdma_sched.h>

int h_spy_tdma_schedule_set(uint8_t frame_offset, const struct tdma_sched_item *item_set,
			    uint16_t p3);

#define tdma_schedule_set h_spy_tdma_schedule_set
#include SCHED_GSMTIME_C
#undef tdma_schedule_set

void h_gsmtime_hard_init(void)
{
	memset(sched_gsmtime_events, 0, sizeof(sched_gsmtime_events));
	INIT_LLIST_HEAD(&active_evts);
	INIT_LLIST_HEAD(&inactive_evts);
	sched_gsmtime_init();
}
