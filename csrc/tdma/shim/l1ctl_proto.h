/* Shim: <layer1/sync.h> (which declares struct l1s_state, the owner of the TDMA scheduler)
 * needs exactly one type of the L1CTL protocol header, which lives outside the firmware
 * tree.  Same enumerators as include/l1ctl_proto.h. */
#ifndef _TDMA_SHIM_L1CTL_PROTO_H
#define _TDMA_SHIM_L1CTL_PROTO_H

enum l1ctl_tch_loop_mode {
	L1CTL_TCH_LOOP_OPEN	= 0x00,
	L1CTL_TCH_LOOP_A	= 0x01,
	L1CTL_TCH_LOOP_B	= 0x02,
	L1CTL_TCH_LOOP_C	= 0x03,
	L1CTL_TCH_LOOP_D	= 0x04,
	L1CTL_TCH_LOOP_E	= 0x05,
	L1CTL_TCH_LOOP_F	= 0x06,
	L1CTL_TCH_LOOP_I	= 0x07,
};

#endif
