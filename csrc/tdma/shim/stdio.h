/* Shim for the firmware's <stdio.h> (sercomm console): host declarations, with the three
 * console functions tdma_sched.c uses routed to counters in the harness so that a check does
 * not print one line per rejected item. */
#ifndef _TDMA_SHIM_STDIO_H
#define _TDMA_SHIM_STDIO_H

#include_next <stdio.h>

int h_puts(const char *s);
int h_printf(const char *fmt, ...);
int h_putchar(int c);

#undef puts
#undef printf
#undef putchar
#define puts(s)		h_puts(s)
#define printf(...)	h_printf(__VA_ARGS__)
#define putchar(c)	h_putchar(c)

#endif
