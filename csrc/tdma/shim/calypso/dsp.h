/* Shim: tdma_sched.c includes <calypso/dsp.h> but uses nothing of it; the real header maps
 * DSP API memory of the Calypso and does not belong on the host. */
#ifndef _TDMA_SHIM_CALYPSO_DSP_H
#define _TDMA_SHIM_CALYPSO_DSP_H
#endif
