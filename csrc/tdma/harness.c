/* Harness for property C08: the simulator's side of the firmware TDMA scheduler.
 *
 * Linked with the unmodified tdma_sched.c and (through gsmtime_wrap.c) sched_gsmtime.c of
 * the repository.  It owns what sync.c owns on the target: the `l1s` global, the frame
 * interrupt (`h_frame` = flag scan, execute, one-shot events, advance, in the order of
 * l1_sync()) and l1s_reset() (`h_reset`).  The 16 callbacks log what they were called with
 * and optionally do what real L1 callbacks do: schedule more work or reset the scheduler.
 *
 * Everything Python needs is exported as plain data (h_log, h_log_n, h_state), refreshed at
 * the end of every wrapper, so that one operation costs one foreign call.
 *
 * Safety net, never triggered by sound code: the harness verifies around every call into the
 * code under test that the ring is structurally intact (cur_bucket < 25, every num_items <=
 * 8, a successful tdma_schedule() grew exactly one bucket by one, a failed one changed
 * nothing, ...).  A mutated scheduler that writes past a bucket is stopped there (`fatal`),
 * before it can run a clobbered function pointer; should it crash anyway, SIGSEGV & co. are
 * caught while inside a wrapper and reported the same way. */

#include <stdint.h>
#include <stdio.h>
#include <string.h>
#include <setjmp.h>
#include <signal.h>
#include <stdarg.h>

#include <debug.h>
#include <layer1/tdma_sched.h>
#include <layer1/sched_gsmtime.h>
#include <layer1/sync.h>

struct l1s_state l1s;

void h_gsmtime_hard_init(void);

/* ------------------------------------------------------------------ exported data ---- */

#define H_NUM_CB	16
#define H_LOG_MAX	4096
#define H_REC		8
#define H_NSLOT		640
#define H_SET_MAX	40

enum {
	R_CB = 0,		/* cb, p1, p2, p3 */
	R_FU_SCHED = 1,		/* off, cb, p1, p2, p3, prio, rc */
	R_FU_RESET = 2,
	R_FU_SET = 3,		/* off, slot, p3, rc */
	R_SPY = 4,		/* off, slot (-1 unknown), p3, rc : sched_gsmtime -> tdma_schedule_set */
	R_EXEC_DONE = 5,	/* rc, num_items of the executed bucket, flag scan before execute */
	R_FRAME = 6,		/* number of one-shot events fired, fn */
};

enum {
	F_NONE = 0,
	F_CORRUPT_BEFORE = 1,
	F_OVERRUN = 2,		/* a schedule call reported success on a full bucket / grew wrongly */
	F_CORRUPT_AFTER = 3,
	F_CRASH = 4,
	F_RUNAWAY = 5,
	F_LOST_WRITE = 6,	/* success reported but no bucket of the ring took the item */
};

#define H_FATAL_RC	(-70000)

int32_t h_log[H_LOG_MAX * H_REC];
int32_t h_log_n;
/* [0] cur_bucket, [1..25] num_items in ring order starting at the current bucket,
 * [26] fatal code, [27] console lines, [28] fn, [29] callbacks run in total, [30] signal */
int32_t h_state[32];

static int fatal;
static int fatal_sig;
static int console_lines;
static uint32_t cur_fn;
static int total_cb;
static int cb_in_call;

static sigjmp_buf jb;
static volatile sig_atomic_t in_c;
static int handlers_installed;

static struct tdma_sched_item setpool[H_NSLOT][H_SET_MAX];
static int set_items[H_NSLOT];	/* number of real items per slot, -1 = undefined */

struct followup {
	int kind;	/* 0 none, 1 schedule, 2 reset, 3 schedule_set */
	int off, cb, p1, p2, p3, prio, slot;
};
static struct followup fu_table[H_NUM_CB];

/* ------------------------------------------------------------------ console stubs ---- */

int h_puts(const char *s) { (void)s; console_lines++; return 0; }
int h_printf(const char *fmt, ...) { (void)fmt; console_lines++; return 0; }
int h_putchar(int c) { return c; }

/* ------------------------------------------------------------------ helpers ---------- */

#define NB	TDMASCHED_NUM_FRAMES

static void logrec(int kind, int a, int b, int c, int d, int e, int f, int g)
{
	int32_t *r;
	if (h_log_n >= H_LOG_MAX)
		return;
	r = &h_log[h_log_n * H_REC];
	r[0] = kind; r[1] = a; r[2] = b; r[3] = c; r[4] = d; r[5] = e; r[6] = f; r[7] = g;
	h_log_n++;
}

static int state_ok(void)
{
	int i;
	if (l1s.tdma_sched.cur_bucket >= NB)
		return 0;
	for (i = 0; i < NB; i++)
		if (l1s.tdma_sched.bucket[i].num_items > TDMASCHED_NUM_CB)
			return 0;
	return 1;
}

static void snapshot(void)
{
	int i;
	unsigned cur = l1s.tdma_sched.cur_bucket;
	h_state[0] = cur;
	for (i = 0; i < NB; i++)
		h_state[1 + i] = l1s.tdma_sched.bucket[(cur + i) % NB].num_items;
	h_state[26] = fatal;
	h_state[27] = console_lines;
	h_state[28] = (int32_t)cur_fn;
	h_state[29] = total_cb;
	h_state[30] = fatal_sig;
}

static void die(int code)
{
	if (!fatal)
		fatal = code;
	siglongjmp(jb, code);
}

static void on_signal(int sig)
{
	if (in_c) {
		fatal_sig = sig;
		siglongjmp(jb, F_CRASH);
	}
	signal(sig, SIG_DFL);
	raise(sig);
}

static void counts(uint8_t *out)
{
	int i;
	for (i = 0; i < NB; i++)
		out[i] = l1s.tdma_sched.bucket[i].num_items;
}

/* `rc_ok`: the call reported success; `want`: number of items it claims to have stored
 * (-1: any number up to `max`).  Verifies the ring grew accordingly and nowhere else. */
static void check_growth(const uint8_t *before, uint8_t cur_before, int rc_ok, int want, int max)
{
	int i, grown = 0;
	if (!state_ok() || l1s.tdma_sched.cur_bucket != cur_before)
		die(F_CORRUPT_AFTER);
	for (i = 0; i < NB; i++) {
		int d = (int)l1s.tdma_sched.bucket[i].num_items - (int)before[i];
		if (d < 0)
			die(F_CORRUPT_AFTER);
		grown += d;
	}
	if (rc_ok) {
		if (grown < want)
			die(grown == 0 ? F_LOST_WRITE : F_OVERRUN);
		if (grown > want)
			die(F_OVERRUN);
	} else if (grown > max)
		die(F_OVERRUN);
}

static tdma_sched_cb *cbs[H_NUM_CB];

static int do_schedule(int off, int cb, int p1, int p2, int p3, int prio)
{
	uint8_t before[NB], cur = l1s.tdma_sched.cur_bucket;
	int rc;
	counts(before);
	rc = tdma_schedule((uint8_t)off, cbs[cb], (uint8_t)p1, (uint8_t)p2, (uint16_t)p3, (int16_t)prio);
	check_growth(before, cur, rc == 0, 1, 0);
	return rc;
}

static int do_schedule_set(int off, const struct tdma_sched_item *set, int nitems, int p3)
{
	uint8_t before[NB], cur = l1s.tdma_sched.cur_bucket;
	int rc;
	counts(before);
	rc = tdma_schedule_set((uint8_t)off, set, (uint16_t)p3);
	if (nitems >= 0)
		check_growth(before, cur, rc >= 0, nitems, nitems > 0 ? nitems - 1 : 0);
	else if (!state_ok() || l1s.tdma_sched.cur_bucket != cur)
		die(F_CORRUPT_AFTER);
	return rc;
}

static int slot_of(const struct tdma_sched_item *set)
{
	const char *p = (const char *)set, *base = (const char *)setpool;
	if (p < base || p >= base + sizeof(setpool))
		return -1;
	return (int)((p - base) / sizeof(setpool[0]));
}

/* sched_gsmtime_execute() -> here -> tdma_schedule_set() */
int h_spy_tdma_schedule_set(uint8_t frame_offset, const struct tdma_sched_item *item_set, uint16_t p3)
{
	int slot = slot_of(item_set);
	int rc = do_schedule_set(frame_offset, item_set, slot >= 0 ? set_items[slot] : -1, p3);
	logrec(R_SPY, frame_offset, slot, p3, rc, 0, 0, 0);
	return rc;
}

static void do_reset(void)
{
	/* as l1s_reset() */
	sched_gsmtime_reset();
	tdma_sched_reset();
}

/* ------------------------------------------------------------------ callbacks -------- */

static int cb_common(int idx, uint8_t p1, uint8_t p2, uint16_t p3)
{
	struct followup f;
	int rc;

	if (++cb_in_call > 64 || h_log_n >= H_LOG_MAX - 8)
		die(F_RUNAWAY);
	total_cb++;
	logrec(R_CB, idx, p1, p2, p3, 0, 0, 0);

	f = fu_table[idx];
	if (f.kind) {
		fu_table[idx].kind = 0;
		switch (f.kind) {
		case 1:
			rc = do_schedule(f.off, f.cb, f.p1, f.p2, f.p3, f.prio);
			logrec(R_FU_SCHED, f.off, f.cb, f.p1, f.p2, f.p3, f.prio, rc);
			break;
		case 2:
			do_reset();
			if (!state_ok())
				die(F_CORRUPT_AFTER);
			logrec(R_FU_RESET, 0, 0, 0, 0, 0, 0, 0);
			break;
		case 3:
			rc = do_schedule_set(f.off, setpool[f.slot], set_items[f.slot], f.p3);
			logrec(R_FU_SET, f.off, f.slot, f.p3, rc, 0, 0, 0);
			break;
		}
	}
	return 0;
}

#define CB(n) static int h_cb_##n(uint8_t p1, uint8_t p2, uint16_t p3) { return cb_common(n, p1, p2, p3); }
CB(0) CB(1) CB(2) CB(3) CB(4) CB(5) CB(6) CB(7)
CB(8) CB(9) CB(10) CB(11) CB(12) CB(13) CB(14) CB(15)

static tdma_sched_cb *cbs[H_NUM_CB] = {
	h_cb_0, h_cb_1, h_cb_2, h_cb_3, h_cb_4, h_cb_5, h_cb_6, h_cb_7,
	h_cb_8, h_cb_9, h_cb_10, h_cb_11, h_cb_12, h_cb_13, h_cb_14, h_cb_15,
};

/* ------------------------------------------------------------------ wrappers --------- */

#define ENTER()									\
	do {									\
		int sj_;							\
		if (fatal) { snapshot(); return H_FATAL_RC; }			\
		h_log_n = 0;							\
		cb_in_call = 0;							\
		if (!state_ok()) {						\
			fatal = F_CORRUPT_BEFORE; snapshot(); return H_FATAL_RC; \
		}								\
		in_c = 1;							\
		sj_ = sigsetjmp(jb, 1);						\
		if (sj_) {							\
			in_c = 0;						\
			if (!fatal) fatal = sj_;				\
			snapshot();						\
			return H_FATAL_RC;					\
		}								\
	} while (0)

#define LEAVE()									\
	do {									\
		in_c = 0;							\
		if (!fatal && !state_ok()) fatal = F_CORRUPT_AFTER;		\
		snapshot();							\
		if (fatal) return H_FATAL_RC;					\
	} while (0)

int h_init(int start_fn)
{
	int i;
	if (!handlers_installed) {
		struct sigaction sa;
		memset(&sa, 0, sizeof(sa));
		sa.sa_handler = on_signal;
		sa.sa_flags = SA_NODEFER;
		sigemptyset(&sa.sa_mask);
		sigaction(SIGSEGV, &sa, NULL);
		sigaction(SIGBUS, &sa, NULL);
		sigaction(SIGILL, &sa, NULL);
		sigaction(SIGFPE, &sa, NULL);
		handlers_installed = 1;
	}
	memset(&l1s, 0, sizeof(l1s));
	memset(fu_table, 0, sizeof(fu_table));
	for (i = 0; i < H_NSLOT; i++)
		set_items[i] = -1;
	fatal = 0;
	fatal_sig = 0;
	console_lines = 0;
	total_cb = 0;
	cur_fn = (uint32_t)start_fn;
	h_log_n = 0;
	in_c = 0;
	h_gsmtime_hard_init();
	snapshot();
	return 0;
}

int h_schedule(int off, int cb, int p1, int p2, int p3, int prio)
{
	volatile int rc;
	ENTER();
	rc = do_schedule(off, cb & (H_NUM_CB - 1), p1, p2, p3, prio);
	LEAVE();
	return rc;
}

/* entries: n x 7 ints (kind 0 item / 1 end-of-frame, cb, p1, p2, prio, p3 of the item itself
 * (must be overridden by the set's), flags); the end-of-set marker is appended here */
int h_set_define(int slot, int n, const int32_t *e)
{
	int i, items = 0;
	if (slot < 0 || slot >= H_NSLOT || n < 0 || n >= H_SET_MAX)
		return -1;
	memset(setpool[slot], 0, sizeof(setpool[slot]));
	for (i = 0; i < n; i++, e += 7) {
		struct tdma_sched_item *it = &setpool[slot][i];
		if (e[0] == 1) {
			struct tdma_sched_item ef = SCHED_END_FRAME();
			*it = ef;
		} else {
			struct tdma_sched_item si = SCHED_ITEM(cbs[e[1] & (H_NUM_CB - 1)], (int16_t)e[4],
							       (uint8_t)e[2], (uint8_t)e[3]);
			*it = si;
			it->p3 = (uint16_t)e[5];
			it->flags = (uint16_t)e[6];
			items++;
		}
	}
	{
		struct tdma_sched_item es = SCHED_END_SET();
		setpool[slot][n] = es;
	}
	set_items[slot] = items;
	return 0;
}

int h_schedule_set(int off, int slot, int p3)
{
	volatile int rc;
	if (slot < 0 || slot >= H_NSLOT || set_items[slot] < 0)
		return H_FATAL_RC - 1;
	ENTER();
	rc = do_schedule_set(off, setpool[slot], set_items[slot], p3);
	LEAVE();
	return rc;
}

static int exec_common(void)
{
	uint16_t flags;
	int rc;
	uint8_t cur = l1s.tdma_sched.cur_bucket;

	flags = tdma_sched_flag_scan();
	rc = tdma_sched_execute();
	if (!state_ok() || l1s.tdma_sched.cur_bucket != cur)
		die(F_CORRUPT_AFTER);
	logrec(R_EXEC_DONE, rc, l1s.tdma_sched.bucket[cur].num_items, flags, 0, 0, 0, 0);
	return rc;
}

int h_execute(void)
{
	volatile int rc;
	ENTER();
	rc = exec_common();
	LEAVE();
	return rc;
}

int h_advance(void)
{
	ENTER();
	tdma_sched_advance();
	LEAVE();
	return 0;
}

/* one TDMA frame interrupt, in the order of l1_sync() */
int h_frame(void)
{
	volatile int rc;
	int n;
	ENTER();
	cur_fn++;
	rc = exec_common();
	n = sched_gsmtime_execute(cur_fn);
	tdma_sched_advance();
	logrec(R_FRAME, n, (int)cur_fn, 0, 0, 0, 0, 0);
	LEAVE();
	return rc;
}

int h_reset(void)
{
	ENTER();
	do_reset();
	LEAVE();
	return 0;
}

int h_arm(int cb, int kind, int off, int cb2, int p1, int p2, int p3, int prio, int slot)
{
	struct followup *f;
	if (cb < 0 || cb >= H_NUM_CB)
		return -1;
	if (kind == 3 && (slot < 0 || slot >= H_NSLOT || set_items[slot] < 0))
		return -1;
	f = &fu_table[cb];
	f->kind = kind; f->off = off; f->cb = cb2 & (H_NUM_CB - 1);
	f->p1 = p1; f->p2 = p2; f->p3 = p3; f->prio = prio; f->slot = slot;
	return 0;
}

/* one-shot event: schedule set `slot` at GSM frame current + dfn */
int h_gsmtime(int slot, int dfn, int p3)
{
	volatile int rc;
	if (slot < 0 || slot >= H_NSLOT || set_items[slot] < 0)
		return H_FATAL_RC - 1;
	ENTER();
	rc = sched_gsmtime(setpool[slot], cur_fn + (uint32_t)dfn, (uint16_t)p3);
	LEAVE();
	return rc;
}

int h_sizes(int which)
{
	switch (which) {
	case 0: return TDMASCHED_NUM_FRAMES;
	case 1: return TDMASCHED_NUM_CB;
	case 2: return H_NSLOT;
	case 3: return H_SET_MAX;
	case 4: return H_LOG_MAX;
	case 5: return sizeof(struct tdma_sched_item);
	}
	return -1;
}
