/* verif shim of <osmocom/core/timer.h>: timers live in a registry owned by the driver, which
 * fires them on request (virtual time belongs to the simulator). */
#pragma once

#include <stdbool.h>
#include <osmocom/core/linuxlist.h>

struct osmo_timer_list {
	struct llist_head list;		/* registry linkage while pending */
	unsigned int active;
	unsigned long sec, usec;	/* relative expiry as requested */
	void (*cb)(void *);
	void *data;
};

void osmo_timer_setup(struct osmo_timer_list *timer, void (*cb)(void *data), void *data);
void osmo_timer_schedule(struct osmo_timer_list *timer, int seconds, int microseconds);
void osmo_timer_del(struct osmo_timer_list *timer);
int osmo_timer_pending(const struct osmo_timer_list *timer);
