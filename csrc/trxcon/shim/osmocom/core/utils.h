/* verif shim: the few helpers of <osmocom/core/utils.h> that trx_if.c (and the headers it
 * pulls in) need.  Not libosmocore code; written for /verif/csrc/trxcon. */
#pragma once

#include <stddef.h>
#include <stdint.h>
#include <stdbool.h>

#define ARRAY_SIZE(x) (sizeof(x) / sizeof((x)[0]))
#ifndef OSMO_MAX
#define OSMO_MAX(a, b) ((a) >= (b) ? (a) : (b))
#endif
#ifndef OSMO_MIN
#define OSMO_MIN(a, b) ((a) >= (b) ? (b) : (a))
#endif
#define OSMO_STRINGIFY(x) #x
#define OSMO_STRINGIFY_VAL(x) OSMO_STRINGIFY(x)
#define OSMO_LIKELY(x) __builtin_expect(!!(x), 1)
#define OSMO_UNLIKELY(x) __builtin_expect(!!(x), 0)
#define OSMO_DEPRECATED(text) __attribute__((__deprecated__(text)))

struct value_string {
	uint32_t value;
	const char *str;
};

const char *get_value_string(const struct value_string *vs, uint32_t val);

/* reports through the event stream, then abort()s (fatal signal for the parent process) */
void shim_assert_failed(const char *expr, const char *file, int line) __attribute__((noreturn));

#define OSMO_ASSERT(exp) \
	do { if (!(exp)) shim_assert_failed(#exp, __FILE__, __LINE__); } while (0)
