/* verif shim of <osmocom/core/socket.h>: no kernel socket is created; the (local, remote)
 * address pair is recorded and a fake descriptor handed out. */
#pragma once

#include <stdint.h>
#include <sys/types.h>
#include <sys/socket.h>

struct osmo_fd;

#define OSMO_SOCK_F_CONNECT	(1 << 0)
#define OSMO_SOCK_F_BIND	(1 << 1)
#define OSMO_SOCK_F_NONBLOCK	(1 << 2)

int osmo_sock_init2_ofd(struct osmo_fd *ofd, int family, int type, int proto,
			const char *local_host, uint16_t local_port,
			const char *remote_host, uint16_t remote_port, unsigned int flags);
