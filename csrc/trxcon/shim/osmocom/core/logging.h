/* verif shim of <osmocom/core/logging.h>: every log line becomes a `log` event. */
#pragma once

#include <stdarg.h>
#include <osmocom/core/utils.h>

#define LOGL_DEBUG	1
#define LOGL_INFO	3
#define LOGL_NOTICE	5
#define LOGL_ERROR	7
#define LOGL_FATAL	8

void shim_logp(int subsys, int level, const char *file, int line, const char *prefix,
	       const char *fmt, ...) __attribute__((format(printf, 6, 7)));

#define LOGP(ss, level, fmt, args...) \
	shim_logp(ss, level, __FILE__, __LINE__, NULL, fmt, ## args)
#define LOGPC(ss, level, fmt, args...) \
	shim_logp(ss, level, __FILE__, __LINE__, NULL, fmt, ## args)
