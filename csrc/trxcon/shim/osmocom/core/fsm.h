/* verif shim of <osmocom/core/fsm.h>: a minimal finite state machine with the semantics
 * trx_if.c relies on -- per-state out_state_mask / in_event_mask honoured and *reported*
 * when violated, one timer per instance, cleanup callback on termination, parent/child,
 * the instance (and everything talloc'ed below it) released after cleanup, the parent told
 * through parent_term_event. */
#pragma once

#include <stdint.h>
#include <stdbool.h>

#include <osmocom/core/linuxlist.h>
#include <osmocom/core/timer.h>
#include <osmocom/core/utils.h>
#include <osmocom/core/logging.h>

struct osmo_fsm_inst;

enum osmo_fsm_term_cause {
	OSMO_FSM_TERM_PARENT,
	OSMO_FSM_TERM_REQUEST,
	OSMO_FSM_TERM_REGULAR,
	OSMO_FSM_TERM_ERROR,
	OSMO_FSM_TERM_TIMEOUT,
};

extern const struct value_string osmo_fsm_term_cause_names[];

struct osmo_fsm_state {
	uint32_t in_event_mask;
	uint32_t out_state_mask;
	const char *name;
	void (*action)(struct osmo_fsm_inst *fi, uint32_t event, void *data);
	void (*onenter)(struct osmo_fsm_inst *fi, uint32_t prev_state);
	void (*onleave)(struct osmo_fsm_inst *fi, uint32_t next_state);
};

struct osmo_fsm {
	struct llist_head list;
	struct llist_head instances;
	const char *name;
	const struct osmo_fsm_state *states;
	unsigned int num_states;
	uint32_t allstate_event_mask;
	void (*allstate_action)(struct osmo_fsm_inst *fi, uint32_t event, void *data);
	void (*cleanup)(struct osmo_fsm_inst *fi, enum osmo_fsm_term_cause cause);
	int (*timer_cb)(struct osmo_fsm_inst *fi);
	int log_subsys;
	const struct value_string *event_names;
	void (*pre_term)(struct osmo_fsm_inst *fi, enum osmo_fsm_term_cause cause);
};

struct osmo_fsm_inst {
	struct llist_head list;
	struct osmo_fsm *fsm;
	const char *id;
	const char *name;
	void *priv;
	int log_level;
	uint32_t state;
	int T;
	struct osmo_timer_list timer;
	struct {
		struct osmo_fsm_inst *parent;
		uint32_t parent_term_event;
		struct llist_head children;
		struct llist_head child;
		bool terminating;
	} proc;
};

int osmo_fsm_register(struct osmo_fsm *fsm);
struct osmo_fsm_inst *osmo_fsm_inst_alloc(struct osmo_fsm *fsm, void *ctx, void *priv,
					  int log_level, const char *id);
struct osmo_fsm_inst *osmo_fsm_inst_alloc_child(struct osmo_fsm *fsm,
						struct osmo_fsm_inst *parent,
						uint32_t parent_term_event);
void osmo_fsm_inst_free(struct osmo_fsm_inst *fi);

const char *osmo_fsm_state_name(const struct osmo_fsm *fsm, uint32_t state);
const char *osmo_fsm_event_name(const struct osmo_fsm *fsm, uint32_t event);
const char *osmo_fsm_inst_name(const struct osmo_fsm_inst *fi);

int _osmo_fsm_inst_state_chg(struct osmo_fsm_inst *fi, uint32_t new_state,
			     unsigned long timeout_secs, int T, const char *file, int line);
int _osmo_fsm_inst_dispatch(struct osmo_fsm_inst *fi, uint32_t event, void *data,
			    const char *file, int line);
void _osmo_fsm_inst_term(struct osmo_fsm_inst *fi, enum osmo_fsm_term_cause cause, void *data,
			 const char *file, int line);

#define osmo_fsm_inst_state_chg(fi, new_state, timeout_secs, T) \
	_osmo_fsm_inst_state_chg(fi, new_state, timeout_secs, T, __FILE__, __LINE__)
#define osmo_fsm_inst_dispatch(fi, event, data) \
	_osmo_fsm_inst_dispatch(fi, event, data, __FILE__, __LINE__)
#define osmo_fsm_inst_term(fi, cause, data) \
	_osmo_fsm_inst_term(fi, cause, data, __FILE__, __LINE__)

/* logging in the context of an FSM instance (fi may be NULL) */
const char *shim_fsm_log_prefix(const struct osmo_fsm_inst *fi, char *buf, size_t len);
int shim_fsm_log_subsys(const struct osmo_fsm_inst *fi);

#define LOGPFSMSL(fi, subsys, level, fmt, args...) \
	do { \
		char _pfx[96]; \
		shim_logp(subsys, level, __FILE__, __LINE__, \
			  shim_fsm_log_prefix(fi, _pfx, sizeof(_pfx)), fmt, ## args); \
	} while (0)
#define LOGPFSML(fi, level, fmt, args...) \
	LOGPFSMSL(fi, shim_fsm_log_subsys(fi), level, fmt, ## args)
#define LOGPFSM(fi, fmt, args...) \
	LOGPFSML(fi, LOGL_DEBUG, fmt, ## args)
