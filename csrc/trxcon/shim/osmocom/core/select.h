/* verif shim of <osmocom/core/select.h>: registered descriptors are kept in a table; the
 * driver invokes the callback when the simulator delivers a datagram. */
#pragma once

#include <osmocom/core/linuxlist.h>

#define OSMO_FD_READ	0x0001
#define OSMO_FD_WRITE	0x0002
#define OSMO_FD_EXCEPT	0x0004
#define BSC_FD_READ	OSMO_FD_READ
#define BSC_FD_WRITE	OSMO_FD_WRITE
#define BSC_FD_EXCEPT	OSMO_FD_EXCEPT

struct osmo_fd {
	struct llist_head list;
	int fd;
	unsigned int when;
	int (*cb)(struct osmo_fd *fd, unsigned int what);
	void *data;
	unsigned int priv_nr;
};

void osmo_fd_setup(struct osmo_fd *ofd, int fd, unsigned int when,
		   int (*cb)(struct osmo_fd *fd, unsigned int what),
		   void *data, unsigned int priv_nr);
int osmo_fd_register(struct osmo_fd *fd);
void osmo_fd_unregister(struct osmo_fd *fd);
