/* verif shim of talloc: a minimal *hierarchical* allocator on top of malloc/free (parent /
 * children, recursive free), so that freeing an FSM instance releases what was allocated
 * below it exactly like the real talloc does, and AddressSanitizer sees every chunk as an
 * ordinary heap object. */
#pragma once

#include <stddef.h>

void *shim_talloc_zero(const void *ctx, size_t size, const char *name);
int shim_talloc_free(void *ptr, const char *location);
/* number of live chunks (for the driver's leak accounting) */
unsigned int shim_talloc_live(void);

#define SHIM_STR2(x) #x
#define SHIM_STR(x) SHIM_STR2(x)

#define talloc_zero(ctx, type) ((type *) shim_talloc_zero(ctx, sizeof(type), #type))
#define talloc_zero_size(ctx, size) shim_talloc_zero(ctx, size, "size")
#define talloc_named_const(ctx, size, name) shim_talloc_zero(ctx, size, name)
#define talloc_free(ptr) shim_talloc_free(ptr, __FILE__ ":" SHIM_STR(__LINE__))
