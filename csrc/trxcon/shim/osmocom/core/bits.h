/* verif shim of <osmocom/core/bits.h> + the osmo_load/store32be helpers of
 * <osmocom/core/bit32gen.h>. */
#pragma once

#include <stdint.h>
#include <stddef.h>

typedef int8_t  sbit_t;   /* soft bit (-127...127) */
typedef uint8_t ubit_t;   /* unpacked bit (0 or 1) */
typedef uint8_t pbit_t;   /* packed bits */

static inline uint32_t osmo_load32be(const void *p)
{
	const uint8_t *q = (const uint8_t *) p;
	return ((uint32_t) q[0] << 24) | ((uint32_t) q[1] << 16) | ((uint32_t) q[2] << 8) | (uint32_t) q[3];
}

static inline void osmo_store32be(uint32_t x, void *p)
{
	uint8_t *q = (uint8_t *) p;
	q[0] = (x >> 24) & 0xff;
	q[1] = (x >> 16) & 0xff;
	q[2] = (x >> 8) & 0xff;
	q[3] = x & 0xff;
}
