/* verif shim of <osmocom/core/bits.h> + the osmo_load/store32be helpers of
 * <osmocom/core/bit32gen.h>. */
#pragma once

#include <stdint.h>
#include <stddef.h>

typedef int8_t  sbit_t;   /* soft bit (-127...127) */
typedef uint8_t ubit_t;   /* unpacked bit (0 or 1) */
typedef uint8_t pbit_t;   /* packed bits */

static inline uint32_t osmo_load32be(const void *p)
{
	const uint8_t *q = (const uint8_t *) p;
	return ((uint32_t) q[0] << 24) | ((uint32_t) q[1] << 16) | ((uint32_t) q[2] << 8) | (uint32_t) q[3];
}

static inline void osmo_store32be(uint32_t x, void *p)
{
	uint8_t *q = (uint8_t *) p;
	q[0] = (x >> 24) & 0xff;
	q[1] = (x >> 16) & 0xff;
	q[2] = (x >> 8) & 0xff;
	q[3] = x & 0xff;
}

/* the other fixed-width loads/stores of <osmocom/core/bit16gen.h>, bit32gen.h, bit64gen.h: a
 * refactoring of trx_if.c may legitimately use them */
static inline uint16_t osmo_load16be(const void *p)
{
	const uint8_t *q = (const uint8_t *) p;
	return (uint16_t) (((uint16_t) q[0] << 8) | (uint16_t) q[1]);
}

static inline uint16_t osmo_load16le(const void *p)
{
	const uint8_t *q = (const uint8_t *) p;
	return (uint16_t) (((uint16_t) q[1] << 8) | (uint16_t) q[0]);
}

static inline void osmo_store16be(uint16_t x, void *p)
{
	uint8_t *q = (uint8_t *) p;
	q[0] = (x >> 8) & 0xff;
	q[1] = x & 0xff;
}

static inline void osmo_store16le(uint16_t x, void *p)
{
	uint8_t *q = (uint8_t *) p;
	q[1] = (x >> 8) & 0xff;
	q[0] = x & 0xff;
}

static inline uint32_t osmo_load32le(const void *p)
{
	const uint8_t *q = (const uint8_t *) p;
	return ((uint32_t) q[3] << 24) | ((uint32_t) q[2] << 16) | ((uint32_t) q[1] << 8) | (uint32_t) q[0];
}

static inline void osmo_store32le(uint32_t x, void *p)
{
	uint8_t *q = (uint8_t *) p;
	q[3] = (x >> 24) & 0xff;
	q[2] = (x >> 16) & 0xff;
	q[1] = (x >> 8) & 0xff;
	q[0] = x & 0xff;
}
