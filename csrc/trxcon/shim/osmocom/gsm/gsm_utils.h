/* verif shim of <osmocom/gsm/gsm_utils.h>: ARFCN flags, the physical channel configuration
 * enumeration (values as in libosmocore) and the ARFCN <-> frequency conversions. */
#pragma once

#include <stdint.h>

#define ARFCN_PCS	0x8000
#define ARFCN_UPLINK	0x4000
#define ARFCN_FLAG_MASK	0xf000

enum gsm_phys_chan_config {
	GSM_PCHAN_NONE,
	GSM_PCHAN_CCCH,
	GSM_PCHAN_CCCH_SDCCH4,
	GSM_PCHAN_TCH_F,
	GSM_PCHAN_TCH_H,
	GSM_PCHAN_SDCCH8_SACCH8C,
	GSM_PCHAN_PDCH,
	GSM_PCHAN_TCH_F_PDCH,
	GSM_PCHAN_UNKNOWN,
	GSM_PCHAN_CCCH_SDCCH4_CBCH,
	GSM_PCHAN_SDCCH8_SACCH8C_CBCH,
	GSM_PCHAN_OSMO_DYN,
	_GSM_PCHAN_MAX
};

/* Convert an ARFCN to the frequency in MHz * 10 (0xffff: not defined) */
uint16_t gsm_arfcn2freq10(uint16_t arfcn, int uplink);
/* Convert a frequency in MHz * 10 to an ARFCN (0xffff: not defined) */
uint16_t gsm_freq102arfcn(uint16_t freq10, int uplink);
