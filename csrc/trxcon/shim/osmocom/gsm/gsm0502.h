/* verif shim of <osmocom/gsm/gsm0502.h>: TDMA constants of 3GPP TS 45.002. */
#pragma once

#include <stdint.h>

#define GSM_TDMA_FN_DURATION_uS		4615
#define GSM_TDMA_SUPERFRAME		(26 * 51)
#define GSM_TDMA_HYPERFRAME		(2048 * GSM_TDMA_SUPERFRAME)

#define GSM_TDMA_FN_SUM(a, b) \
	(((a) + (b)) % GSM_TDMA_HYPERFRAME)
#define GSM_TDMA_FN_SUB(a, b) \
	(((a) + GSM_TDMA_HYPERFRAME - (b)) % GSM_TDMA_HYPERFRAME)
#define GSM_TDMA_FN_INC(fn) \
	((fn) = GSM_TDMA_FN_SUM((fn), 1))

/* number of bits in a normal burst */
#define GSM_NBITS_NB_GMSK_BURST		148
#define GSM_NBITS_NB_8PSK_BURST		(GSM_NBITS_NB_GMSK_BURST * 3)
