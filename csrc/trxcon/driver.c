/* Line-protocol driver around trxcon's *unmodified* trx_if.c (transceiver interface: TRXC
 * command queue with retransmission timer, TRXC response parser, TRXD receive/transmit).
 * Built with -fsanitize=address,undefined; the simulator (Python side: sim/trxcon_proc.py)
 * is the network, the clock and the upper layer.
 *
 * Strictly synchronous: one input line -> zero or more event lines -> "ok" or "err <text>".
 *
 * Requests
 *   open <local_host> <remote_host> <base_port> [fn_advance [instance]]
 *   close                                   trx_if_close()
 *   cmd RESET | POWERON | POWEROFF
 *   cmd MEASURE <band_arfcn> | SETFREQ_H0 <band_arfcn>
 *   cmd SETFREQ_H1 <hsn> <maio> <arfcn,arfcn,...>   ("-" = empty list)
 *   cmd SETSLOT <tn> <pchan>                pchan: enum gsm_phys_chan_config, 0.._GSM_PCHAN_MAX-1
 *   cmd SETTA <ta>                          -128..127
 *   cmd TYPE <n>                            any other enum value (default branch)
 *   burst_req <fn> <tn> <pwr> <hex of ubits | ->     (at most TRXD_BUF_SIZE - 6 bits)
 *   rx ctrl|data <hex | ->                  deliver one datagram: read() returns it (truncated to
 *                                           the caller's buffer), the osmo_fd callback is invoked
 *   rxerr ctrl|data <errno>                 read() fails with that errno
 *   timer                                   fire the pending (retransmission) timer
 *   state                                   report, see below
 *   loglevel <n>                            suppress `log` events below level n (1 debug .. 8 fatal)
 *   sockfail <n>                            the n-th following socket creation fails
 *   reset                                   close the instance, forget everything, start afresh
 *   quit                                    close, release everything, exit(0) (leak check at exit)
 *
 * Events
 *   sock <name> <lhost> <lport> <rhost> <rport>   sock_close <name>   sock_fail ...
 *   tx ctrl|data <hex>                      every send()
 *   rx_truncated <name> <datagram len> <buffer len>
 *   timer_sched <sec> <usec>   timer_del   no_timer   timer_fired
 *   cmd_rc <n>   burst_req_rc <n>   cb_rc <n>   rx_unread
 *   rsp MEASURE <band_arfcn> <dbm>          trxcon_phyif_handle_rsp()
 *   burst_ind <fn> <tn> <rssi> <toa256> <hex of the soft bits, as unsigned octets>
 *   rts_ind <fn> <tn>
 *   fsm_alloc <fsm>   fsm_state_chg <old> <new>   fsm_term <CAUSE> <fsm>   parent_event <n>
 *   fsm_state_chg_while_terminating <old> <new>   (ignored by libosmocore, not a violation)
 *   fsm_violation <text>                    state change / event the FSM definition forbids
 *   inst_freed                              the instance is gone (closed or self-terminated)
 *   log <LEVEL> <subsys> <text>             non-printable octets escaped as \xNN
 *   state: fsm_state <name|->, ctrl_queue <n>, ctrl_head <hex|->, timer_pending 0|1, alive 0|1,
 *          powered_up 0|1, talloc_live <n>
 */

#include <errno.h>
#include <stdarg.h>
#include <stdio.h>
#include <stdlib.h>
#include <string.h>
#include <ctype.h>

#include <osmocom/core/talloc.h>
#include <osmocom/gsm/gsm_utils.h>

#include <osmocom/bb/trxcon/trx_if.h>

#include "shim_drv.h"

#define PARENT_EV_TRX_TERM 7

static struct osmo_fsm_inst *g_parent;
static struct trx_instance *g_trx;
static struct osmo_fsm_inst *g_trx_fi;
static int g_priv_token;	/* address handed to trx_if.c as `priv`, echoed in callbacks */
static char *g_lhost, *g_rhost;

/* ------------------------------------------------------------------ parent FSM ------ */

static void parent_allstate(struct osmo_fsm_inst *fi, uint32_t event, void *data)
{
	shim_emit("parent_event %u", event);
}

static const struct value_string parent_evt_names[] = {
	{ PARENT_EV_TRX_TERM, "TRX_TERM" },
	{ 0, NULL }
};

static const struct osmo_fsm_state parent_states[] = {
	[0] = { .name = "RUNNING", .out_state_mask = 1 },
};

static struct osmo_fsm parent_fsm = {
	.name = "driver_parent",
	.states = parent_states,
	.num_states = 1,
	.allstate_event_mask = 1U << PARENT_EV_TRX_TERM,
	.allstate_action = parent_allstate,
	.event_names = parent_evt_names,
};

void shim_hook_inst_freed(struct osmo_fsm_inst *fi)
{
	if (fi == g_trx_fi) {
		g_trx_fi = NULL;
		g_trx = NULL;
		shim_emit("inst_freed");
	}
}

/* ------------------------------------------------------------------ upper layer ----- */

static void check_priv(void *priv, const char *who)
{
	if (priv != &g_priv_token)
		shim_emit("bad_priv %s", who);
}

int trxcon_phyif_handle_burst_ind(void *priv, const struct trxcon_phyif_burst_ind *bi)
{
	char pfx[96];

	check_priv(priv, "burst_ind");
	snprintf(pfx, sizeof(pfx), "burst_ind %u %u %d %d", bi->fn, bi->tn, bi->rssi, bi->toa256);
	shim_emit_hex(pfx, bi->burst, bi->burst_len);
	return 0;
}

int trxcon_phyif_handle_rts_ind(void *priv, const struct trxcon_phyif_rts_ind *rts)
{
	check_priv(priv, "rts_ind");
	shim_emit("rts_ind %u %u", rts->fn, rts->tn);
	return 0;
}

int trxcon_phyif_handle_rtr_ind(void *priv, const struct trxcon_phyif_rtr_ind *ind,
				struct trxcon_phyif_rtr_rsp *rsp)
{
	check_priv(priv, "rtr_ind");
	shim_emit("rtr_ind %u %u", ind->fn, ind->tn);
	return 0;
}

int trxcon_phyif_handle_rsp(void *priv, const struct trxcon_phyif_rsp *rsp)
{
	check_priv(priv, "rsp");
	switch (rsp->type) {
	case TRXCON_PHYIF_CMDT_MEASURE:
		shim_emit("rsp MEASURE %u %d", rsp->param.measure.band_arfcn, rsp->param.measure.dbm);
		break;
	default:
		shim_emit("rsp TYPE %d", (int) rsp->type);
	}
	return 0;
}

/* ------------------------------------------------------------------ helpers --------- */

static int hexval(int c)
{
	if (c >= '0' && c <= '9')
		return c - '0';
	if (c >= 'a' && c <= 'f')
		return c - 'a' + 10;
	if (c >= 'A' && c <= 'F')
		return c - 'A' + 10;
	return -1;
}

/* returns a malloc'ed buffer of exactly *len octets (so that the sanitizer guards its end) */
static uint8_t *parse_hex(const char *s, size_t *len)
{
	size_t n = strlen(s), i;
	uint8_t *out;

	if (!strcmp(s, "-")) {
		*len = 0;
		return malloc(1);
	}
	if (n % 2)
		return NULL;
	out = malloc(n / 2 ? n / 2 : 1);
	for (i = 0; i < n / 2; i++) {
		int a = hexval(s[2 * i]), b = hexval(s[2 * i + 1]);
		if (a < 0 || b < 0) {
			free(out);
			return NULL;
		}
		out[i] = (a << 4) | b;
	}
	*len = n / 2;
	return out;
}

static char *next_tok(char **p)
{
	char *s = *p, *e;

	while (*s == ' ')
		s++;
	if (!*s)
		return NULL;
	e = s;
	while (*e && *e != ' ')
		e++;
	if (*e)
		*e++ = '\0';
	*p = e;
	return s;
}

static int tok_long(char **p, long *out)
{
	char *t = next_tok(p), *end;

	if (!t)
		return -1;
	errno = 0;
	*out = strtol(t, &end, 0);
	if (*end || errno)
		return -1;
	return 0;
}

static void reply_ok(void)
{
	fputs("ok\n", stdout);
}

static void reply_err(const char *fmt, ...) __attribute__((format(printf, 1, 2)));
static void reply_err(const char *fmt, ...)
{
	va_list ap;

	fputs("err ", stdout);
	va_start(ap, fmt);
	vfprintf(stdout, fmt, ap);
	va_end(ap);
	fputc('\n', stdout);
}

#define REPLY_OK() reply_ok()
#define REPLY_ERR(fmt, args...) reply_err(fmt, ## args)

/* ------------------------------------------------------------------ requests -------- */

static void ensure_parent(void)
{
	if (!g_parent)
		g_parent = osmo_fsm_inst_alloc(&parent_fsm, NULL, NULL, 0, "driver");
}

static void do_open(char *args)
{
	char *lhost = next_tok(&args), *rhost = next_tok(&args);
	long port, fn_advance = 3, instance = 0;
	struct trx_if_params params;

	if (!lhost || !rhost || tok_long(&args, &port) || port < 0 || port > 65535)
		return REPLY_ERR("usage: open <local_host> <remote_host> <base_port> [fn_advance [instance]]");
	if (*args && tok_long(&args, &fn_advance))
		return REPLY_ERR("bad fn_advance");
	if (*args && tok_long(&args, &instance))
		return REPLY_ERR("bad instance");
	if (g_trx)
		return REPLY_ERR("already open");
	ensure_parent();
	free(g_lhost);
	free(g_rhost);
	g_lhost = strdup(lhost);
	g_rhost = strdup(rhost);
	memset(&params, 0, sizeof(params));
	params.local_host = g_lhost;
	params.remote_host = g_rhost;
	params.base_port = port;
	params.fn_advance = fn_advance;
	params.instance = instance;
	params.parent_fi = g_parent;
	params.parent_term_event = PARENT_EV_TRX_TERM;
	params.priv = &g_priv_token;
	g_trx = trx_if_open(&params);
	if (!g_trx)
		return REPLY_ERR("trx_if_open returned NULL");
	g_trx_fi = g_trx->fi;
	REPLY_OK();
}

static void do_close(void)
{
	if (!g_trx)
		return REPLY_ERR("no instance");
	trx_if_close(g_trx);
	REPLY_OK();
}

static void do_cmd(char *args)
{
	char *type = next_tok(&args);
	struct trxcon_phyif_cmd cmd;
	uint16_t *ma = NULL;
	long a, b;
	int rc;

	if (!g_trx)
		return REPLY_ERR("no instance");
	if (!type)
		return REPLY_ERR("cmd needs a type");
	memset(&cmd, 0, sizeof(cmd));
	if (!strcmp(type, "RESET")) {
		cmd.type = TRXCON_PHYIF_CMDT_RESET;
	} else if (!strcmp(type, "POWERON")) {
		cmd.type = TRXCON_PHYIF_CMDT_POWERON;
	} else if (!strcmp(type, "POWEROFF")) {
		cmd.type = TRXCON_PHYIF_CMDT_POWEROFF;
	} else if (!strcmp(type, "MEASURE")) {
		if (tok_long(&args, &a) || a < 0 || a > 0xffff)
			return REPLY_ERR("MEASURE <band_arfcn>");
		cmd.type = TRXCON_PHYIF_CMDT_MEASURE;
		cmd.param.measure.band_arfcn = a;
	} else if (!strcmp(type, "SETFREQ_H0")) {
		if (tok_long(&args, &a) || a < 0 || a > 0xffff)
			return REPLY_ERR("SETFREQ_H0 <band_arfcn>");
		cmd.type = TRXCON_PHYIF_CMDT_SETFREQ_H0;
		cmd.param.setfreq_h0.band_arfcn = a;
	} else if (!strcmp(type, "SETFREQ_H1")) {
		char *list, *tok, *save = NULL;
		unsigned int n = 0, cap = 0;

		if (tok_long(&args, &a) || tok_long(&args, &b) || a < 0 || a > 255 || b < 0 || b > 255)
			return REPLY_ERR("SETFREQ_H1 <hsn> <maio> <arfcn,...>");
		list = next_tok(&args);
		if (!list)
			return REPLY_ERR("SETFREQ_H1 <hsn> <maio> <arfcn,...>");
		if (strcmp(list, "-")) {
			for (tok = strtok_r(list, ",", &save); tok; tok = strtok_r(NULL, ",", &save)) {
				char *end;
				long v = strtol(tok, &end, 0);
				if (*end || v < 0 || v > 0xffff) {
					free(ma);
					return REPLY_ERR("bad ARFCN '%s'", tok);
				}
				if (n == cap) {
					cap = cap ? cap * 2 : 8;
					ma = realloc(ma, cap * sizeof(*ma));
				}
				ma[n++] = v;
			}
		}
		/* exact-size copy: reading behind the list is reported by the sanitizer */
		if (n) {
			uint16_t *exact = malloc(n * sizeof(*ma));
			memcpy(exact, ma, n * sizeof(*ma));
			free(ma);
			ma = exact;
		}
		cmd.type = TRXCON_PHYIF_CMDT_SETFREQ_H1;
		cmd.param.setfreq_h1.hsn = a;
		cmd.param.setfreq_h1.maio = b;
		cmd.param.setfreq_h1.ma = ma;
		cmd.param.setfreq_h1.ma_len = n;
	} else if (!strcmp(type, "SETSLOT")) {
		if (tok_long(&args, &a) || tok_long(&args, &b) || a < 0 || a > 255)
			return REPLY_ERR("SETSLOT <tn> <pchan>");
		/* caller contract: pchan is an enum gsm_phys_chan_config (trx_if.c indexes a table) */
		if (b < 0 || b >= _GSM_PCHAN_MAX)
			return REPLY_ERR("pchan outside enum gsm_phys_chan_config");
		cmd.type = TRXCON_PHYIF_CMDT_SETSLOT;
		cmd.param.setslot.tn = a;
		cmd.param.setslot.pchan = b;
	} else if (!strcmp(type, "SETTA")) {
		if (tok_long(&args, &a) || a < -128 || a > 127)
			return REPLY_ERR("SETTA <ta>");
		cmd.type = TRXCON_PHYIF_CMDT_SETTA;
		cmd.param.setta.ta = a;
	} else if (!strcmp(type, "TYPE")) {
		if (tok_long(&args, &a) || a < 0 || a > 255)
			return REPLY_ERR("TYPE <n>");
		cmd.type = (enum trxcon_phyif_cmd_type) a;
	} else {
		return REPLY_ERR("unknown command type '%s'", type);
	}
	rc = trx_if_handle_phyif_cmd(g_trx, &cmd);
	free(ma);
	shim_emit("cmd_rc %d", rc);
	REPLY_OK();
}

static void do_burst_req(char *args)
{
	struct trxcon_phyif_burst_req br;
	long fn, tn, pwr;
	char *hex;
	uint8_t *bits;
	size_t len;
	int rc;

	if (!g_trx)
		return REPLY_ERR("no instance");
	if (tok_long(&args, &fn) || tok_long(&args, &tn) || tok_long(&args, &pwr)
	    || fn < 0 || fn > 0xffffffffL || tn < 0 || tn > 255 || pwr < 0 || pwr > 255)
		return REPLY_ERR("burst_req <fn> <tn> <pwr> <hex>");
	hex = next_tok(&args);
	if (!hex || !(bits = parse_hex(hex, &len)))
		return REPLY_ERR("bad hex");
	/* caller contract: a burst fits the transmit buffer (l1sched hands over 148 or 444 bits) */
	if (len > TRXD_BUF_SIZE - 6) {
		free(bits);
		return REPLY_ERR("burst longer than TRXD_BUF_SIZE - 6");
	}
	memset(&br, 0, sizeof(br));
	br.fn = fn;
	br.tn = tn;
	br.pwr = pwr;
	br.burst = bits;
	br.burst_len = len;
	rc = trx_if_handle_phyif_burst_req(g_trx, &br);
	free(bits);
	shim_emit("burst_req_rc %d", rc);
	REPLY_OK();
}

static void do_rx(char *args, int is_err)
{
	char *name = next_tok(&args), *arg = next_tok(&args);
	struct shim_sock *s;
	struct osmo_fd *ofd;
	uint8_t *data = NULL;
	size_t len = 0;
	long err = 0;
	int rc;

	if (!name || !arg)
		return REPLY_ERR("rx|rxerr ctrl|data <hex|errno>");
	if (!g_trx)
		return REPLY_ERR("no instance");
	s = shim_sock_by_name(name);
	if (!s || !s->open || !s->ofd)
		return REPLY_ERR("socket %s is not open", name);
	if (is_err) {
		char *end;
		err = strtol(arg, &end, 0);
		if (*end || err <= 0)
			return REPLY_ERR("bad errno");
	} else {
		data = parse_hex(arg, &len);
		if (!data)
			return REPLY_ERR("bad hex");
	}
	shim_rx_set(s, data, len, err);
	free(data);
	ofd = s->ofd;
	rc = ofd->cb(ofd, OSMO_FD_READ);
	shim_emit("cb_rc %d", rc);
	if (!shim_rx_consumed())
		shim_emit("rx_unread");
	shim_rx_clear();
	REPLY_OK();
}

static void do_timer(void)
{
	struct osmo_timer_list *t = shim_timer_first_pending();

	if (!t) {
		shim_emit("no_timer");
		return REPLY_OK();
	}
	shim_emit("timer_fired");
	shim_timer_fire(t);
	REPLY_OK();
}

static void do_state(void)
{
	if (g_trx) {
		struct trx_ctrl_msg *tcm;
		unsigned int n = 0;

		shim_emit("fsm_state %s", osmo_fsm_state_name(g_trx->fi->fsm, g_trx->fi->state));
		llist_for_each_entry(tcm, &g_trx->trx_ctrl_list, list)
			n++;
		shim_emit("ctrl_queue %u", n);
		if (n) {
			tcm = llist_entry(g_trx->trx_ctrl_list.next, struct trx_ctrl_msg, list);
			shim_emit_hex("ctrl_head", tcm->cmd, strnlen(tcm->cmd, sizeof(tcm->cmd)));
		} else {
			shim_emit("ctrl_head -");
		}
		shim_emit("timer_pending %d", osmo_timer_pending(&g_trx->trx_ctrl_timer) ? 1 : 0);
		shim_emit("alive 1");
		shim_emit("powered_up %d", g_trx->powered_up ? 1 : 0);
	} else {
		shim_emit("fsm_state -");
		shim_emit("ctrl_queue 0");
		shim_emit("ctrl_head -");
		shim_emit("timer_pending %d", shim_timer_num_pending() ? 1 : 0);
		shim_emit("alive 0");
		shim_emit("powered_up 0");
	}
	/* the parent instance belongs to the driver */
	shim_emit("talloc_live %u", shim_talloc_live() - (g_parent ? 1 : 0));
	REPLY_OK();
}

/* returns the number of chunks that should not be there any more */
static unsigned int teardown(void)
{
	unsigned int live;

	if (g_trx)
		trx_if_close(g_trx);
	if (g_parent) {
		/* the parent has no cleanup; a child still hanging below it is released with it */
		osmo_fsm_inst_free(g_parent);
		g_parent = NULL;
	}
	g_trx = NULL;
	g_trx_fi = NULL;
	free(g_lhost);
	free(g_rhost);
	g_lhost = g_rhost = NULL;
	live = shim_reset();
	shim_log_min_level = 0;
	return live;
}

int main(int argc, char **argv)
{
	char *line = NULL;
	size_t cap = 0;
	ssize_t n;

	setvbuf(stdout, NULL, _IOLBF, 1 << 16);
	OSMO_ASSERT(osmo_fsm_register(&parent_fsm) == 0);
	while ((n = getline(&line, &cap, stdin)) > 0) {
		char *p = line, *verb;

		while (n > 0 && (line[n - 1] == '\n' || line[n - 1] == '\r'))
			line[--n] = '\0';
		verb = next_tok(&p);
		if (!verb) {
			REPLY_ERR("empty request");
		} else if (!strcmp(verb, "open")) {
			do_open(p);
		} else if (!strcmp(verb, "close")) {
			do_close();
		} else if (!strcmp(verb, "cmd")) {
			do_cmd(p);
		} else if (!strcmp(verb, "burst_req")) {
			do_burst_req(p);
		} else if (!strcmp(verb, "rx")) {
			do_rx(p, 0);
		} else if (!strcmp(verb, "rxerr")) {
			do_rx(p, 1);
		} else if (!strcmp(verb, "timer")) {
			do_timer();
		} else if (!strcmp(verb, "state")) {
			do_state();
		} else if (!strcmp(verb, "loglevel")) {
			long lv;
			if (tok_long(&p, &lv))
				REPLY_ERR("loglevel <n>");
			else {
				shim_log_min_level = lv;
				REPLY_OK();
			}
		} else if (!strcmp(verb, "sockfail")) {
			long k;
			if (tok_long(&p, &k) || k < 0)
				REPLY_ERR("sockfail <n>");
			else {
				shim_sock_fail_at = k;
				REPLY_OK();
			}
		} else if (!strcmp(verb, "reset")) {
			unsigned int live = teardown();
			if (live)
				REPLY_ERR("reset: %u talloc chunks still alive", live);
			else
				REPLY_OK();
		} else if (!strcmp(verb, "quit")) {
			unsigned int live = teardown();
			shim_emit("talloc_live %u", live);
			REPLY_OK();
			break;
		} else {
			REPLY_ERR("unknown request '%s'", verb);
		}
		fflush(stdout);
	}
	/* end of input without `quit` (parent gone): still leave nothing behind */
	teardown();
	free(line);
	fflush(stdout);
	return 0;
}
