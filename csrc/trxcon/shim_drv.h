/* Private interface between shim.c (the stand-in for the modern libosmocore API used by
 * trxcon's trx_if.c) and driver.c (the line-protocol process).  Not seen by trx_if.c. */
#pragma once

#include <stddef.h>
#include <stdint.h>
#include <sys/types.h>

#include <osmocom/core/select.h>
#include <osmocom/core/timer.h>
#include <osmocom/core/fsm.h>

/* ---- event stream (stdout, one line per event) ---- */
void shim_emit(const char *fmt, ...) __attribute__((format(printf, 1, 2)));
/* "<prefix> <hex of buf>" ("-" for an empty buffer); reads buf with instrumented code */
void shim_emit_hex(const char *prefix, const void *buf, size_t len);
/* minimum level of `log` events that are emitted (formatting is always performed) */
extern int shim_log_min_level;

/* ---- sockets ---- */
#define SHIM_MAX_SOCK 8
struct shim_sock {
	int fd;				/* fake descriptor, 0 = slot unused */
	int open;			/* not yet close()d */
	struct osmo_fd *ofd;		/* registered osmo_fd or NULL */
	char lhost[64], rhost[64];
	uint16_t lport, rport;
};
extern struct shim_sock shim_socks[SHIM_MAX_SOCK];
extern unsigned int shim_num_socks;
/* make the n-th (1-based) following osmo_sock_init2_ofd() fail; 0 = none */
extern int shim_sock_fail_at;
const char *shim_sock_name(int fd);		/* "ctrl" (first opened), "data" (second), "sockN" */
struct shim_sock *shim_sock_by_name(const char *name);
/* next datagram (or error) that read() on this socket will return */
void shim_rx_set(struct shim_sock *s, const uint8_t *data, size_t len, int err);
int shim_rx_consumed(void);			/* was the datagram read by the callback? */
void shim_rx_clear(void);

/* ---- timers ---- */
struct osmo_timer_list *shim_timer_first_pending(void);
unsigned int shim_timer_num_pending(void);
/* remove from the registry and call the callback (what osmo_timers_update() does) */
void shim_timer_fire(struct osmo_timer_list *t);

/* ---- life cycle ---- */
/* forget sockets, timers, pending datagram; returns the number of live talloc chunks */
unsigned int shim_reset(void);

/* ---- implemented by the driver ---- */
/* an FSM instance is about to be released (after its cleanup callback ran) */
void shim_hook_inst_freed(struct osmo_fsm_inst *fi);
