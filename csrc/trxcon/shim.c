/* Stand-in for exactly the part of the modern libosmocore API that trxcon's trx_if.c uses
 * (the in-tree libosmocore copy predates fsm.h).  Written for /verif; no libosmocore code
 * is copied except where said.  Everything observable goes to the event stream of the
 * driver (see driver.c for the line protocol).
 *
 *   talloc      hierarchical malloc/free wrapper (parent/children, recursive free)
 *   timers      one registry of pending timers, fired by the driver on request
 *   osmo_fd     table of registered descriptors, callbacks invoked by the driver
 *   sockets     osmo_sock_init2_ofd() records the address pair, hands out fake descriptors;
 *               trx_if.c is compiled with -Dread=sim_read -Dsend=sim_send -Dclose=sim_close
 *   FSM         states / out_state_mask / in_event_mask honoured and reported when violated,
 *               cleanup callback, parent/child, termination releases the instance
 *   logging     LOGPFSML/LOGPFSMSL format into a `log` event (so that "%s" arguments are
 *               really read, under the sanitizer's eyes)
 *   GSM helpers gsm_arfcn2freq10 / gsm_freq102arfcn re-implemented from the band table of
 *               3GPP TS 45.005 section 2 (same table-driven form as current libosmocore;
 *               the in-tree gsm_utils.c has no gsm_freq102arfcn)
 *   sscanf      linked with --wrap: the input string is walked by instrumented code first,
 *               because the sanitizer's own interceptor does not check it
 */

#include <errno.h>
#include <stdarg.h>
#include <stdio.h>
#include <stdlib.h>
#include <string.h>

#include <osmocom/core/talloc.h>
#include <osmocom/core/socket.h>
#include <osmocom/gsm/gsm_utils.h>

#include "shim_drv.h"

#if defined(__SANITIZE_ADDRESS__)
#include <sanitizer/asan_interface.h>
#define SHIM_POISON(p, n) __asan_poison_memory_region((p), (n))
#define SHIM_UNPOISON(p, n) __asan_unpoison_memory_region((p), (n))
#else
#define SHIM_POISON(p, n) do { } while (0)
#define SHIM_UNPOISON(p, n) do { } while (0)
#endif

/* ------------------------------------------------------------------ event stream ---- */

int shim_log_min_level = 0;

void shim_emit(const char *fmt, ...)
{
	va_list ap;

	va_start(ap, fmt);
	vfprintf(stdout, fmt, ap);
	va_end(ap);
	fputc('\n', stdout);
}

void shim_emit_hex(const char *prefix, const void *buf, size_t len)
{
	static const char digits[] = "0123456789abcdef";
	const volatile uint8_t *p = (const volatile uint8_t *) buf;
	size_t i;

	fputs(prefix, stdout);
	fputc(' ', stdout);
	if (len == 0)
		fputc('-', stdout);
	for (i = 0; i < len; i++) {
		uint8_t b = p[i];	/* instrumented read: an over-long length is reported here */
		fputc(digits[b >> 4], stdout);
		fputc(digits[b & 15], stdout);
	}
	fputc('\n', stdout);
}

void shim_assert_failed(const char *expr, const char *file, int line)
{
	shim_emit("assert_failed %s:%d %s", file, line, expr);
	fflush(stdout);
	fprintf(stderr, "SHIM: Assert failed %s %s:%d\n", expr, file, line);
	abort();
}

const char *get_value_string(const struct value_string *vs, uint32_t val)
{
	static char buf[32];

	for (; vs && (vs->value || vs->str); vs++) {
		if (vs->value == val)
			return vs->str;
	}
	snprintf(buf, sizeof(buf), "unknown 0x%x", val);
	return buf;
}

/* ------------------------------------------------------------------ talloc ---------- */

#define CHUNK_MAGIC 0x74616c6c6f632121ULL

struct chunk {
	struct chunk *parent, *child, *next, *prev;
	const char *name;
	size_t size;
	uint64_t magic;
	uint64_t pad;
};

static unsigned int talloc_live;

static struct chunk *chunk_of(const void *ptr)
{
	return (struct chunk *) ((char *) ptr - sizeof(struct chunk));
}

void *shim_talloc_zero(const void *ctx, size_t size, const char *name)
{
	struct chunk *c = calloc(1, sizeof(*c) + size);

	if (!c)
		return NULL;
	c->magic = CHUNK_MAGIC;
	c->name = name;
	c->size = size;
	if (ctx) {
		struct chunk *p = chunk_of(ctx);
		OSMO_ASSERT(p->magic == CHUNK_MAGIC);
		c->parent = p;
		c->next = p->child;
		if (p->child)
			p->child->prev = c;
		p->child = c;
	}
	talloc_live++;
	return c + 1;
}

static void chunk_free(struct chunk *c)
{
	while (c->child) {
		struct chunk *k = c->child;
		OSMO_ASSERT(k->magic == CHUNK_MAGIC);
		c->child = k->next;
		if (k->next)
			k->next->prev = NULL;
		k->parent = NULL;
		k->next = k->prev = NULL;
		chunk_free(k);
	}
	c->magic = 0;
	talloc_live--;
	free(c);
}

int shim_talloc_free(void *ptr, const char *location)
{
	struct chunk *c;

	if (!ptr)
		return -1;
	c = chunk_of(ptr);
	/* a chunk freed twice is a heap-use-after-free for the sanitizer on this very read */
	if (c->magic != CHUNK_MAGIC) {
		shim_emit("talloc_bad_free %s", location);
		fflush(stdout);
		fprintf(stderr, "SHIM: talloc_free() of a pointer that is not a live chunk at %s\n", location);
		abort();
	}
	if (c->parent) {
		if (c->prev)
			c->prev->next = c->next;
		else
			c->parent->child = c->next;
		if (c->next)
			c->next->prev = c->prev;
	}
	c->parent = c->next = c->prev = NULL;
	chunk_free(c);
	return 0;
}

unsigned int shim_talloc_live(void)
{
	return talloc_live;
}

/* ------------------------------------------------------------------ timers ---------- */

static LLIST_HEAD(timers);

void osmo_timer_setup(struct osmo_timer_list *timer, void (*cb)(void *data), void *data)
{
	timer->cb = cb;
	timer->data = data;
}

int osmo_timer_pending(const struct osmo_timer_list *timer)
{
	return timer->active;
}

void osmo_timer_del(struct osmo_timer_list *timer)
{
	if (timer->active) {
		timer->active = 0;
		llist_del(&timer->list);
		shim_emit("timer_del");
	}
}

void osmo_timer_schedule(struct osmo_timer_list *timer, int seconds, int microseconds)
{
	/* osmo_timer_add() re-arms a timer that is already pending */
	if (timer->active) {
		timer->active = 0;
		llist_del(&timer->list);
	}
	timer->sec = seconds;
	timer->usec = microseconds;
	timer->active = 1;
	llist_add_tail(&timer->list, &timers);
	shim_emit("timer_sched %d %d", seconds, microseconds);
}

struct osmo_timer_list *shim_timer_first_pending(void)
{
	if (llist_empty(&timers))
		return NULL;
	return llist_entry(timers.next, struct osmo_timer_list, list);
}

unsigned int shim_timer_num_pending(void)
{
	struct llist_head *p;
	unsigned int n = 0;

	llist_for_each(p, &timers)
		n++;
	return n;
}

void shim_timer_fire(struct osmo_timer_list *t)
{
	t->active = 0;
	llist_del(&t->list);
	if (t->cb)
		t->cb(t->data);
}

/* ------------------------------------------------------------------ descriptors ----- */

struct shim_sock shim_socks[SHIM_MAX_SOCK];
unsigned int shim_num_socks;
int shim_sock_fail_at;
static int next_fd = 1000;

static struct {
	struct shim_sock *sock;
	uint8_t *data;
	size_t len;
	int err;
	int armed;
	int consumed;
	void *poisoned;		/* part of the reader's buffer behind the datagram */
	size_t poisoned_len;
} rx;

static struct shim_sock *sock_by_fd(int fd)
{
	unsigned int i;

	for (i = 0; i < shim_num_socks; i++) {
		if (shim_socks[i].fd == fd)
			return &shim_socks[i];
	}
	return NULL;
}

const char *shim_sock_name(int fd)
{
	static char buf[16];
	struct shim_sock *s = sock_by_fd(fd);

	if (!s)
		return "nosock";
	if (s == &shim_socks[0])
		return "ctrl";
	if (s == &shim_socks[1])
		return "data";
	snprintf(buf, sizeof(buf), "sock%d", (int) (s - shim_socks));
	return buf;
}

struct shim_sock *shim_sock_by_name(const char *name)
{
	if (!strcmp(name, "ctrl") && shim_num_socks >= 1)
		return &shim_socks[0];
	if (!strcmp(name, "data") && shim_num_socks >= 2)
		return &shim_socks[1];
	return NULL;
}

void osmo_fd_setup(struct osmo_fd *ofd, int fd, unsigned int when,
		   int (*cb)(struct osmo_fd *fd, unsigned int what),
		   void *data, unsigned int priv_nr)
{
	ofd->fd = fd;
	ofd->when = when;
	ofd->cb = cb;
	ofd->data = data;
	ofd->priv_nr = priv_nr;
}

int osmo_fd_register(struct osmo_fd *ofd)
{
	struct shim_sock *s = sock_by_fd(ofd->fd);

	if (!s)
		return -EBADF;
	s->ofd = ofd;
	return 0;
}

void osmo_fd_unregister(struct osmo_fd *ofd)
{
	struct shim_sock *s = sock_by_fd(ofd->fd);

	if (!s || s->ofd != ofd) {
		shim_emit("fd_unregister_unknown %d", ofd->fd);
		return;
	}
	s->ofd = NULL;
}

int osmo_sock_init2_ofd(struct osmo_fd *ofd, int family, int type, int proto,
			const char *local_host, uint16_t local_port,
			const char *remote_host, uint16_t remote_port, unsigned int flags)
{
	struct shim_sock *s;

	if (shim_sock_fail_at > 0 && --shim_sock_fail_at == 0) {
		shim_emit("sock_fail %s %u %s %u", local_host ? local_host : "-", local_port,
			  remote_host ? remote_host : "-", remote_port);
		return -ENODEV;
	}
	/* a new instance after the previous one closed everything: start the table afresh, so
	 * that "ctrl" and "data" name the sockets of the instance that is alive */
	{
		unsigned int i, open = 0;
		for (i = 0; i < shim_num_socks; i++)
			open += shim_socks[i].open;
		if (!open)
			shim_num_socks = 0;
	}
	if (shim_num_socks >= SHIM_MAX_SOCK)
		return -EMFILE;
	s = &shim_socks[shim_num_socks++];
	memset(s, 0, sizeof(*s));
	s->fd = next_fd++;
	s->open = 1;
	snprintf(s->lhost, sizeof(s->lhost), "%s", local_host ? local_host : "-");
	snprintf(s->rhost, sizeof(s->rhost), "%s", remote_host ? remote_host : "-");
	s->lport = local_port;
	s->rport = remote_port;
	shim_emit("sock %s %s %u %s %u", shim_sock_name(s->fd), s->lhost, s->lport, s->rhost, s->rport);
	/* osmo_sock_init2_ofd() = osmo_sock_init2() + fill in fd/when + osmo_fd_register() */
	ofd->fd = s->fd;
	ofd->when = OSMO_FD_READ;
	osmo_fd_register(ofd);
	return s->fd;
}

void shim_rx_set(struct shim_sock *s, const uint8_t *data, size_t len, int err)
{
	shim_rx_clear();
	rx.sock = s;
	rx.len = len;
	rx.err = err;
	rx.data = malloc(len ? len : 1);
	if (len)
		memcpy(rx.data, data, len);
	rx.armed = 1;
	rx.consumed = 0;
}

int shim_rx_consumed(void)
{
	return rx.consumed;
}

void shim_rx_clear(void)
{
	/* the reader's frame is gone by now; its stack must be ordinary memory again (the
	 * compiler's epilogue only clears the red zones it has set up itself) */
	if (rx.poisoned)
		SHIM_UNPOISON(rx.poisoned, rx.poisoned_len);
	free(rx.data);
	memset(&rx, 0, sizeof(rx));
}

/* read() as seen by trx_if.c: datagram semantics (one datagram per call, silently truncated
 * to the caller's buffer).  The part of the caller's buffer behind the datagram (leaving one
 * octet for a terminator) is poisoned until the callback has returned (shim_rx_clear()):
 * whoever looks there looks at stale stack, not at the message. */
ssize_t sim_read(int fd, void *buf, size_t count)
{
	struct shim_sock *s = sock_by_fd(fd);
	size_t n;

	if (!s || !s->open) {
		shim_emit("read_badfd %d", fd);
		errno = EBADF;
		return -1;
	}
	if (!rx.armed || rx.sock != s) {
		errno = EAGAIN;
		return -1;
	}
	rx.armed = 0;
	rx.consumed = 1;
	if (rx.err) {
		errno = rx.err;
		return -1;
	}
	n = rx.len < count ? rx.len : count;
	if (rx.len > count)
		shim_emit("rx_truncated %s %zu %zu", shim_sock_name(fd), rx.len, count);
	if (n)
		memcpy(buf, rx.data, n);
	if (n > 0 && n + 1 < count) {
		rx.poisoned = (char *) buf + n + 1;
		rx.poisoned_len = count - n - 1;
		SHIM_POISON(rx.poisoned, rx.poisoned_len);
	}
	return (ssize_t) n;
}

ssize_t sim_send(int fd, const void *buf, size_t len, int flags)
{
	struct shim_sock *s = sock_by_fd(fd);
	char pfx[32];

	if (!s || !s->open) {
		shim_emit("tx_badfd %d %zu", fd, len);
		errno = EBADF;
		return -1;
	}
	snprintf(pfx, sizeof(pfx), "tx %s", shim_sock_name(fd));
	shim_emit_hex(pfx, buf, len);
	return (ssize_t) len;
}

int sim_close(int fd)
{
	struct shim_sock *s = sock_by_fd(fd);

	if (!s || !s->open) {
		shim_emit("close_badfd %d", fd);
		errno = EBADF;
		return -1;
	}
	if (s->ofd)
		shim_emit("close_registered %s", shim_sock_name(fd));
	s->open = 0;
	shim_emit("sock_close %s", shim_sock_name(fd));
	return 0;
}

/* ------------------------------------------------------------------ logging --------- */

static const char *level_name(int level)
{
	switch (level) {
	case LOGL_DEBUG: return "DEBUG";
	case LOGL_INFO: return "INFO";
	case LOGL_NOTICE: return "NOTICE";
	case LOGL_ERROR: return "ERROR";
	case LOGL_FATAL: return "FATAL";
	}
	return "LEVEL?";
}

void shim_logp(int subsys, int level, const char *file, int line, const char *prefix,
	       const char *fmt, ...)
{
	static char text[8192];
	va_list ap;
	int n, i;

	va_start(ap, fmt);
	n = vsnprintf(text, sizeof(text), fmt, ap);
	va_end(ap);
	if (level < shim_log_min_level)
		return;
	if (n < 0)
		n = 0;
	if (n >= (int) sizeof(text))
		n = sizeof(text) - 1;
	while (n > 0 && text[n - 1] == '\n')
		n--;
	fprintf(stdout, "log %s %d ", level_name(level), subsys);
	if (prefix)
		fprintf(stdout, "%s: ", prefix);
	for (i = 0; i < n; i++) {
		unsigned char c = text[i];
		if (c < 0x20 || c >= 0x7f || c == '\\')
			fprintf(stdout, "\\x%02x", c);
		else
			fputc(c, stdout);
	}
	fputc('\n', stdout);
}

/* ------------------------------------------------------------------ FSM ------------- */

const struct value_string osmo_fsm_term_cause_names[] = {
	{ OSMO_FSM_TERM_PARENT, "PARENT" },
	{ OSMO_FSM_TERM_REQUEST, "REQUEST" },
	{ OSMO_FSM_TERM_REGULAR, "REGULAR" },
	{ OSMO_FSM_TERM_ERROR, "ERROR" },
	{ OSMO_FSM_TERM_TIMEOUT, "TIMEOUT" },
	{ 0, NULL }
};

static LLIST_HEAD(fsms);

int osmo_fsm_register(struct osmo_fsm *fsm)
{
	struct osmo_fsm *f;

	llist_for_each_entry(f, &fsms, list) {
		if (!strcmp(f->name, fsm->name))
			return -EEXIST;
	}
	if (fsm->event_names == NULL)
		return -EINVAL;
	llist_add_tail(&fsm->list, &fsms);
	INIT_LLIST_HEAD(&fsm->instances);
	return 0;
}

const char *osmo_fsm_state_name(const struct osmo_fsm *fsm, uint32_t state)
{
	static char buf[32];

	if (fsm && state < fsm->num_states && fsm->states[state].name)
		return fsm->states[state].name;
	snprintf(buf, sizeof(buf), "unknown %u", state);
	return buf;
}

const char *osmo_fsm_event_name(const struct osmo_fsm *fsm, uint32_t event)
{
	static char buf[32];
	const struct value_string *vs;

	for (vs = fsm ? fsm->event_names : NULL; vs && (vs->value || vs->str); vs++) {
		if (vs->value == event)
			return vs->str;
	}
	snprintf(buf, sizeof(buf), "%u", event);
	return buf;
}

const char *osmo_fsm_inst_name(const struct osmo_fsm_inst *fi)
{
	if (!fi)
		return "NULL";
	return fi->fsm->name;
}

const char *shim_fsm_log_prefix(const struct osmo_fsm_inst *fi, char *buf, size_t len)
{
	if (!fi)
		return NULL;
	snprintf(buf, len, "%s{%s}", fi->fsm->name, osmo_fsm_state_name(fi->fsm, fi->state));
	return buf;
}

int shim_fsm_log_subsys(const struct osmo_fsm_inst *fi)
{
	return fi ? fi->fsm->log_subsys : 0;
}

struct osmo_fsm_inst *osmo_fsm_inst_alloc(struct osmo_fsm *fsm, void *ctx, void *priv,
					  int log_level, const char *id)
{
	struct osmo_fsm_inst *fi = talloc_zero(ctx, struct osmo_fsm_inst);

	if (!fi)
		return NULL;
	fi->fsm = fsm;
	fi->priv = priv;
	fi->log_level = log_level;
	fi->id = id;
	fi->name = fsm->name;
	INIT_LLIST_HEAD(&fi->proc.children);
	INIT_LLIST_HEAD(&fi->proc.child);
	llist_add(&fi->list, &fsm->instances);
	shim_emit("fsm_alloc %s", fsm->name);
	return fi;
}

struct osmo_fsm_inst *osmo_fsm_inst_alloc_child(struct osmo_fsm *fsm,
						struct osmo_fsm_inst *parent,
						uint32_t parent_term_event)
{
	struct osmo_fsm_inst *fi;

	fi = osmo_fsm_inst_alloc(fsm, parent, NULL, parent ? parent->log_level : 0,
				 parent ? parent->id : NULL);
	if (!fi)
		return NULL;
	if (parent) {
		fi->proc.parent = parent;
		fi->proc.parent_term_event = parent_term_event;
		llist_add(&fi->proc.child, &parent->proc.children);
	}
	return fi;
}

void osmo_fsm_inst_free(struct osmo_fsm_inst *fi)
{
	/* like the real one, this dereferences fi: a NULL instance is a crash */
	osmo_timer_del(&fi->timer);
	llist_del(&fi->list);
	shim_hook_inst_freed(fi);
	talloc_free(fi);
}

int _osmo_fsm_inst_state_chg(struct osmo_fsm_inst *fi, uint32_t new_state,
			     unsigned long timeout_secs, int T, const char *file, int line)
{
	struct osmo_fsm *fsm = fi->fsm;
	uint32_t old_state = fi->state;
	const struct osmo_fsm_state *st;

	if (fi->proc.terminating) {
		/* libosmocore: "FSM instance already terminating, not changing state" */
		shim_emit("fsm_state_chg_while_terminating %s %s", osmo_fsm_state_name(fsm, old_state),
			  osmo_fsm_state_name(fsm, new_state));
		return -EINVAL;
	}
	if (old_state >= fsm->num_states || new_state >= fsm->num_states || new_state >= 32) {
		shim_emit("fsm_violation state out of range %u -> %u (%s:%d)", old_state, new_state, file, line);
		return -EPERM;
	}
	st = &fsm->states[old_state];
	if (!(st->out_state_mask & (1U << new_state))) {
		shim_emit("fsm_violation transition %s -> %s not permitted (%s:%d)",
			  osmo_fsm_state_name(fsm, old_state), osmo_fsm_state_name(fsm, new_state), file, line);
		return -EPERM;
	}
	osmo_timer_del(&fi->timer);
	if (st->onleave)
		st->onleave(fi, new_state);
	shim_emit("fsm_state_chg %s %s", osmo_fsm_state_name(fsm, old_state), osmo_fsm_state_name(fsm, new_state));
	fi->state = new_state;
	st = &fsm->states[new_state];
	if (timeout_secs) {
		fi->T = T;
		/* per-instance timer (unused by trx_if.c, which passes 0) */
		osmo_timer_schedule(&fi->timer, timeout_secs, 0);
	}
	if (st->onenter)
		st->onenter(fi, old_state);
	return 0;
}

int _osmo_fsm_inst_dispatch(struct osmo_fsm_inst *fi, uint32_t event, void *data,
			    const char *file, int line)
{
	struct osmo_fsm *fsm;
	const struct osmo_fsm_state *st;

	if (!fi) {
		shim_emit("fsm_violation event %u dispatched to NULL instance (%s:%d)", event, file, line);
		return -ENODEV;
	}
	fsm = fi->fsm;
	st = &fsm->states[fi->state];
	if (event < 32 && (fsm->allstate_event_mask & (1U << event)) && fsm->allstate_action) {
		fsm->allstate_action(fi, event, data);
		return 0;
	}
	if (event >= 32 || !(st->in_event_mask & (1U << event))) {
		shim_emit("fsm_violation event %s not permitted in state %s of %s (%s:%d)",
			  osmo_fsm_event_name(fsm, event), osmo_fsm_state_name(fsm, fi->state), fsm->name, file, line);
		return -1;
	}
	if (st->action)
		st->action(fi, event, data);
	return 0;
}

void _osmo_fsm_inst_term(struct osmo_fsm_inst *fi, enum osmo_fsm_term_cause cause, void *data,
			 const char *file, int line)
{
	struct osmo_fsm_inst *parent, *child, *tmp;
	uint32_t parent_term_event;

	if (fi->proc.terminating)
		return;
	fi->proc.terminating = true;
	shim_emit("fsm_term %s %s", get_value_string(osmo_fsm_term_cause_names, cause), fi->fsm->name);

	llist_for_each_entry_safe(child, tmp, &fi->proc.children, proc.child)
		_osmo_fsm_inst_term(child, OSMO_FSM_TERM_PARENT, NULL, file, line);

	if (fi->fsm->pre_term)
		fi->fsm->pre_term(fi, cause);

	parent = fi->proc.parent;
	parent_term_event = fi->proc.parent_term_event;
	if (parent) {
		llist_del(&fi->proc.child);
		fi->proc.parent = NULL;
	}

	if (fi->fsm->cleanup)
		fi->fsm->cleanup(fi, cause);

	osmo_fsm_inst_free(fi);

	if (parent && cause != OSMO_FSM_TERM_PARENT)
		_osmo_fsm_inst_dispatch(parent, parent_term_event, data, file, line);
}

/* ------------------------------------------------------------------ GSM helpers ----- */

/* 3GPP TS 45.005 section 2: Fl(n) in units of 100 kHz, Fu(n) = Fl(n) + offset */
static const struct {
	uint16_t arfcn_first, arfcn_last;
	uint16_t freq_ul_first;
	uint16_t freq_dl_offset;
	uint16_t flags;
} gsm_ranges[] = {
	{ 512,  810, 18502, 800, ARFCN_PCS },	/* PCS 1900 */
	{   0,  124,  8900, 450, 0 },		/* P-GSM 900 + ARFCN 0 of E-GSM */
	{ 955, 1023,  8762, 450, 0 },		/* E-GSM / R-GSM: 890 + 0.2 * (n - 1024) */
	{ 128,  251,  8242, 450, 0 },		/* GSM 850 */
	{ 512,  885, 17102, 950, 0 },		/* DCS 1800 */
	{ 259,  293,  4506, 100, 0 },		/* GSM 450 */
	{ 306,  340,  4790, 100, 0 },		/* GSM 480 */
	{ 350,  425,  8060, 300, 0 },		/* T-GSM 810 */
	{ 438,  511,  7472, 300, 0 },		/* GSM 750 */
};

uint16_t gsm_arfcn2freq10(uint16_t arfcn, int uplink)
{
	uint16_t flags = arfcn & ARFCN_PCS;
	unsigned int i;

	arfcn &= ~ARFCN_FLAG_MASK;
	for (i = 0; i < ARRAY_SIZE(gsm_ranges); i++) {
		if (flags == gsm_ranges[i].flags && arfcn >= gsm_ranges[i].arfcn_first
		    && arfcn <= gsm_ranges[i].arfcn_last) {
			uint16_t ul = gsm_ranges[i].freq_ul_first + 2 * (arfcn - gsm_ranges[i].arfcn_first);
			return uplink ? ul : ul + gsm_ranges[i].freq_dl_offset;
		}
	}
	return 0xffff;
}

uint16_t gsm_freq102arfcn(uint16_t freq10, int uplink)
{
	unsigned int i;

	for (i = 0; i < ARRAY_SIZE(gsm_ranges); i++) {
		uint16_t lo = gsm_ranges[i].freq_ul_first;
		uint16_t hi = lo + 2 * (gsm_ranges[i].arfcn_last - gsm_ranges[i].arfcn_first);
		if (!uplink) {
			lo += gsm_ranges[i].freq_dl_offset;
			hi += gsm_ranges[i].freq_dl_offset;
		}
		if (freq10 >= lo && freq10 <= hi) {
			uint16_t arfcn = gsm_ranges[i].arfcn_first + ((freq10 - lo) >> 1);
			arfcn |= gsm_ranges[i].flags;
			if (uplink)
				arfcn |= ARFCN_UPLINK;
			return arfcn;
		}
	}
	return 0xffff;
}

/* ------------------------------------------------------------------ sscanf ---------- */

/* Linked with -Wl,--wrap=sscanf,--wrap=__isoc99_sscanf,--wrap=__isoc23_sscanf.  The
 * sanitizer's scanf interceptor checks the output arguments only; the input string is
 * walked here by instrumented code up to its terminator, so that a scan that starts at a
 * wild pointer, behind the received datagram or runs off the buffer is reported at once. */
static int checked_vsscanf(const char *str, const char *fmt, va_list ap)
{
	const volatile char *p = str;

	while (*p)
		p++;
	return vsscanf(str, fmt, ap);
}

int __wrap_sscanf(const char *str, const char *fmt, ...)
{
	va_list ap;
	int rc;

	va_start(ap, fmt);
	rc = checked_vsscanf(str, fmt, ap);
	va_end(ap);
	return rc;
}

int __wrap___isoc99_sscanf(const char *str, const char *fmt, ...)
{
	va_list ap;
	int rc;

	va_start(ap, fmt);
	rc = checked_vsscanf(str, fmt, ap);
	va_end(ap);
	return rc;
}

int __wrap___isoc23_sscanf(const char *str, const char *fmt, ...)
{
	va_list ap;
	int rc;

	va_start(ap, fmt);
	rc = checked_vsscanf(str, fmt, ap);
	va_end(ap);
	return rc;
}

/* ------------------------------------------------------------------ life cycle ------ */

unsigned int shim_reset(void)
{
	struct osmo_timer_list *t;

	while ((t = shim_timer_first_pending()) != NULL) {
		t->active = 0;
		llist_del(&t->list);
	}
	memset(shim_socks, 0, sizeof(shim_socks));
	shim_num_socks = 0;
	shim_sock_fail_at = 0;
	next_fd = 1000;
	shim_rx_clear();
	return talloc_live;
}
