# Entry point of every check: bin/check <ID> [--tier quick|thorough] [--replay FILE]

import argparse
import os
import sys


def _c09():
	from engines.clck import ENGINE
	return ENGINE, dict(
		level="exploration", runs_quick=8000, budget_quick_s=40,
		rule="one run = one seeded plan (start frame, indication period, link set, start/stop/link "
			"operations, per-tick handler durations, stall and wake-latency faults) executed by the real "
			"CLCKGen thread on the virtual clock; distinct = distinct (configuration bucket, probe set, "
			"control/indication event shape); non-trivial = at least two ticks observed",
		assumptions=[
			"tick period accepted within 4 615 000 ns +/- 2 ns (the code computes 4 614 999 by float floor division)",
			"time only passes at seam calls (Event.wait, sleep, injected stalls); computation is instantaneous",
			"the first tick after start() may come anywhere within one period",
		],
		real_stub={"real": ["clck_gen.CLCKGen (_worker thread, start, stop, send_clck_ind)"],
			"stub": ["clock links (record payloads)", "frame handler (sleeps the planned virtual duration)"],
			"simulated": ["threading.Thread/Event", "time.monotonic_ns", "controller thread issuing start/stop/link changes"]},
	)


def _c15():
	from engines.dump import ENGINE
	return ENGINE, dict(
		level="fault_enumeration", runs_quick=1600, budget_quick_s=45, chunk=10,
		rule="one case = one seeded history of append_msg/append_all/read/reopen operations on the real "
			"DATADumpFile over a simulated disk, followed by crash cuts of the resulting byte stream: EVERY "
			"byte offset when the history has few records (quick <= 5, thorough <= 12), otherwise all record "
			"boundaries +/-3, all header-internal offsets and a seeded sample; each cut is reopened by a fresh "
			"reader and compared with the list of completely written messages; distinct = distinct (record "
			"shape sequence, operation sequence, cut mode); non-trivial = at least one record stored and at "
			"least one crash cut examined. 'exhaustive' refers to nothing here: the history space is sampled",
		assumptions=[
			"record boundaries are measured by writing each message alone with the real writer (no layout assumed)",
			"a crash leaves a prefix of the byte stream (no reordering of writes within the file)",
			"captures opened by path live on real files in a private scratch directory, captures passed as file objects on the simulated disk (SimFile models POSIX append/seek semantics); content is carried over at every re-open",
		],
		real_stub={"real": ["data_dump.DATADumpFile/DATADump", "data_msg.TxMsg/RxMsg"],
			"simulated": ["file objects (SimDisk/SimFile)", "crash = truncation of the durable byte stream, re-read by a fresh reader (by path: a real scratch file; as file object: SimFile)"]},
	)


def _c08():
	from engines.tdma import ENGINE
	return ENGINE, dict(
		level="exploration", runs_quick=20000, budget_quick_s=40,
		rule="one run = one seeded plan (ring start position, <=120/<=300 operations out of schedule, "
			"schedule_set, frame interrupt = execute+one-shot events+advance, bare execute, bare advance, "
			"reset, arming one of the 16 callbacks to schedule an item / a set / reset from inside execute, "
			"overflow bursts aimed at one frame, sched_gsmtime one-shot events; swarm-selected op/fault kinds, "
			"priority and offset modes) executed against the real tdma_sched.c in lock step with a reference "
			"model frame->items, followed by a drain of >=25 frames; distinct = distinct (start position, "
			"probe set, fault set, operation/return-value shape); non-trivial = at least one item was "
			"scheduled and executed",
		assumptions=[
			"callbacks report success; frame offsets 0..24; a set's last frame stays below the depth of 25 (offset + frames - 1 <= 24)",
			"equal priorities may run in any order; items added during execute run after the pre-existing ones, in any order",
			"items of the current frame at a reset, and the already placed prefix of a set whose later item overflowed, may stay or vanish (settled from the observed slot counts, then checked as usual)",
			"items of a frame that is advanced over without execute are don't-care: the ring keeps them in the slot, so they may run 25 frames later or never",
			"a frame holds 8 items until its execute completes; items added on the fly count against the same 8",
			"sched_gsmtime.c is driven as a caller only: its calls to tdma_schedule_set are judged, its own timing is not",
		],
		real_stub={"real": ["tdma_sched.c (tdma_schedule, tdma_schedule_set, tdma_sched_execute, tdma_sched_advance, tdma_sched_reset, tdma_sched_flag_scan)",
				"sched_gsmtime.c (unmodified, its tdma_schedule_set call observed through a spy)",
				"struct l1s_state from layer1/sync.h"],
			"stub": ["sync.c / l1_sync (harness delivers the frame interrupt in the same order)", "DSP/TPU, <calypso/dsp.h>, l1ctl_proto.h (enum only)",
				"the scheduled callbacks (16 logging callbacks that may schedule follow-ups or reset)", "console (puts/printf counted, not printed)"],
			"simulated": ["frame interrupts incl. missed ones (bare advance)", "main-context callers", "GSM frame number"]},
	)


def _c06():
	from engines.sercomm import ENGINE
	return ENGINE, dict(
		level="exploration", runs_quick=15000, budget_quick_s=40,
		rule="one run = one seeded plan (registered DLCI subsets per node, sendmsg/pump/noise/over-long operations "
			"in both directions, TX-interrupt points inside sercomm_sendmsg on the target) executed by two freshly "
			"loaded real sercomm.c instances (host build <-> target build) joined by simulated UART wires; every "
			"pulled octet is checked against a reference HDLC encoder and a priority-queue model, every callback "
			"against the frame whose closing flag triggered it; distinct = distinct (fault kinds, probe set, "
			"per-direction sequence of (length class, outcome)); non-trivial = at least one frame delivered",
		assumptions=[
			"DLCI 128 (echo handler registered by sercomm_init on both ends) and DLCIs >= 129 are never used; no handler on DLCI 126",
			"the single frame following an over-long frame may be lost or delivered (don't-care)",
			"the UART interrupt is delivered only at call granularity: between API calls and at the three points of "
			"sercomm_sendmsg where interrupts are enabled (target build); no pre-emption inside the locked region",
			"messages are allocated with sercomm_alloc_msgb(max(len,1)); allocation never fails",
			"both builds link the in-tree libosmocore msgb.c/talloc.c (not the firmware's static msgb pool)",
		],
		real_stub={"real": ["sercomm.c (HOST_BUILD and target configuration, unmodified)", "libosmocore msgb.c", "libosmocore talloc.c",
				"firmware debug.h / uart.h / comm/sercomm.h"],
			"stub": ["asm/system.h (lock -> balance counter + interrupt points)", "uart_irq_enable (records 'TX interrupt armed')",
				"osmo_panic / talloc abort / SIGSEGV (flag + longjmp)", "receive handlers (log + msgb_free)"],
			"simulated": ["both UART directions", "UART TX interrupt", "inter-frame noise", "over-long frames (real Tx path or raw)",
				"malloc/free with guard zones and quarantine"]},
	)


UM_REAL_STUB = {
	"real": ["fake_trx.Application / FakeTRX", "transceiver.Transceiver", "burst_fwd.BurstForwarder", "ctrl_if.CTRLInterface",
		"ctrl_if_trx.CTRLInterfaceTRX", "data_if.DATAInterface", "udp_link.UDPLink", "clck_gen.CLCKGen", "fake_pm.FakePM",
		"gsm_shared.HoppingParams / TrainingSeqGMSK", "data_msg.TxMsg / RxMsg", "trx_list.TRXList", "argparse wiring of --trx definitions"],
	"stub": ["osmo-bts-trx above the sockets (seeded L1 stub actors); the MS-side L1 is a stub actor too, except in the trxcon profile of C05/C10 where it is the real trxcon/trx_if.c (with libosmocore's fsm/timer/select/socket/talloc shimmed, csrc/trxcon/shim.c)", "signal handling", "log output (captured)"],
	"simulated": ["both threads (socket thread, clock thread) under the seeded scheduler", "UDP sockets and select()", "monotonic clock / sleep",
		"random.randint in the data path (seeded env stream)", "network faults on the L1->TRX direction: delay, reorder, duplication, loss"],
}
UM_ASSUME = [
	"the reference model (engines/um_model.py, DESIGN.md Appendix A) and reference codec (sim/refcodec.py) are the trusted base",
	"coarse schedules in most runs: a TRXC command or a clock tick is atomic (threads switch only at blocking calls); line-level interleavings are explored by the race profiles (C03/C12/C05: um_race.py; C02/C10/C18/C05/C12: um_race2.py, DESIGN.md 9.7), where outcomes are judged against every order of the racing command and the tick",
	"race2 profile: the clock thread is taken to forward burst by burst (what it reads for a burst it reads after the previous burst's last datagram left); an implementation that first computes all deliveries of a tick and sends them in one batch would need the per-burst version windows of engines/um_race2.py widened to the whole tick",
	"undefined frequencies (never tuned), the status of known verbs with a wrong argument count, negative randomisation thresholds and odd trailing SETFH frequencies are don't-cares",
	"datagrams from fake_trx towards L1 are never lost or reordered (only the L1->TRX direction is faulty)",
]


def _um(prop, what="", runs_quick=5000):
	from engines.um import ENGINE
	return ENGINE, dict(
		level="exploration", runs_quick=runs_quick, budget_quick_s=55,
		rule="one run = one seeded plan (2..6 transceivers from generated --trx definitions, clock start frame / indication "
			"period, TRXC commands, TRXD bursts relative to the running clock, idle periods, network faults) executed by the "
			"real fake_trx.Application with both of its threads on the simulated network and clock; the recorded history is "
			"replayed against the reference model in lock step (every command response, every tick's datagrams, clock "
			"indications, stale reports). " + what + " distinct = distinct abstract traces (command verb/status, data "
			"classification, per-tick emission counts); non-trivial = at least one obligation (response, emission or stale "
			"report) discharged and at least one clock tick",
		assumptions=UM_ASSUME, real_stub=UM_REAL_STUB)


def _c14():
	from engines.c14 import ENGINE
	real = dict(UM_REAL_STUB)
	real["real"] = real["real"] + ["data_dump.DATADumpFile readers on damaged capture files", "data_if.DATAInterface.recv_rx_msg (MS-side receiver)",
		"TxMsg/RxMsg.parse_msg fed directly"]
	return ENGINE, dict(
		level="exploration", runs_quick=5000, budget_quick_s=55,
		rule="one run = either (a) a valid fake_trx session (as in C05/C10) with hostile datagrams injected at seeded points into control "
			"and data sockets (non-UTF-8, non-numeric, missing/huge arguments, HSN out of range, embedded NULs, over-long lines, random "
			"octets, truncated / bit-flipped / wrong-version TRXD, foreign senders) and octets fed straight into TxMsg/RxMsg.parse_msg and "
			"DATAInterface.recv_rx_msg, judged by: no simulated thread dies, parsers raise nothing but ValueError, at most one response "
			"per hostile command, and every session oracle of C02/C03/C05/C10/C12/C18 keeps holding for the valid traffic afterwards; "
			"or (b) a capture file with bit-rot / garbage / huge length fields / wrong tags read through parse_msg and parse_all, which "
			"must not raise. distinct = distinct abstract traces; non-trivial = an obligation discharged (a) or a damaged file read (b)",
		assumptions=UM_ASSUME + ["partial effects of a rejected multi-argument command are a don't-care until the next valid absolute command for that verb",
			"trxcon's trx_if.c is exercised by the trxcon sub-engine when present (see evidence real_vs_stub)"],
		real_stub=real)


REGISTRY = {
	"C14": _c14,
	"C02": lambda: _um("C02", "Profile C02: tuning/hopping heavy plans over a small frequency pool, bursts from every transceiver."),
	"C03": lambda: _um("C03", runs_quick=6000, what="Profile C03 (35 % of runs): burst arrivals at any advance (-5..+25, far future, beyond the hyperframe), duplicates, power cycles, SETFORMAT changes. Race profile (50 % of runs, fine schedules; a further 15 % run the recipient-side race2 profile, DESIGN.md 9.7): one arrival / POWEROFF / POWERON / SETFORMAT / SETFH / tuning datagram released at exactly the instant of a clock tick, both threads interleaved at source-line granularity (change-point sweep over the source lines of the race window, PCT with 2-3 change points, random walk), judged by a burst-centric linearisation-tolerant oracle with passive sniffer transceivers."),
	"C05": lambda: _um("C05", "Profile C05 (70 % of runs): command heavy plans over every verb, argument count and value range, foreign source ports, non-CMD datagrams, response delays. trxcon profile (15 %): the real, unmodified trxcon/trx_if.c (ASan/UBSan driver process) is the MS-side L1 over a fault-free link: random phyif command sequences (RESET, POWERON/OFF, MEASURE, SETFREQ_H0, SETFREQ_H1 with 1..64 ARFCNs, SETSLOT, SETTA), bursts both ways; every response of fake_trx must be accepted by trxcon's parser (no retransmission, no FSM termination except on a refused command, queue drained), MEASURE results must come back with the commanded ARFCN and the level fake_trx answered. Race profile (15 %): see C03."),
	"C10": lambda: _um("C10", "Profile C10: metadata heavy plans (SETPOWER, SETTA, FAKE_TOA/RSSI/CI at the protocol boundaries), NB/SB/AB/FB/dummy/random/EDGE bursts."),
	"C12": lambda: _um("C12", "Profile C12: power histories over parents and children, random port plans."),
	"C18": lambda: _um("C18", "Profile C18: FAKE_DROP / RFMUTE interleaved with burst trains, v0 and v1 links."),
	"C06": _c06,
	"C08": _c08,
	"C09": _c09,
	"C15": _c15,
}


def main(argv):
	ap = argparse.ArgumentParser()
	ap.add_argument("prop")
	ap.add_argument("--tier", default=os.environ.get("VERIF_TIER", "quick"), choices=["quick", "thorough"])
	ap.add_argument("--replay")
	a = ap.parse_args(argv)
	if a.prop not in REGISTRY:
		print("unknown property %s" % a.prop)
		return 2
	from sim import runner
	engine, kw = REGISTRY[a.prop]()
	try:
		if a.replay:
			return runner.replay(engine, a.prop, a.replay)
		return runner.run_check(engine, a.prop, a.tier, **kw)
	except Exception:
		import traceback
		traceback.print_exc()
		print("HARNESS-ERROR: %s" % sys.exc_info()[1])
		return 2
