# Entry point of every check: bin/check <ID> [--tier quick|thorough] [--replay FILE]

import argparse
import os
import sys


def _c09():
	from engines.clck import ENGINE
	return ENGINE, dict(
		level="exploration", runs_quick=1500, budget_quick_s=40,
		rule="one run = one seeded plan (start frame, indication period, link set, start/stop/link "
			"operations, per-tick handler durations, stall and wake-latency faults) executed by the real "
			"CLCKGen thread on the virtual clock; distinct = distinct (configuration bucket, probe set, "
			"control/indication event shape); non-trivial = at least two ticks observed",
		assumptions=[
			"tick period accepted within 4 615 000 ns +/- 2 ns (the code computes 4 614 999 by float floor division)",
			"time only passes at seam calls (Event.wait, sleep, injected stalls); computation is instantaneous",
			"the first tick after start() may come anywhere within one period",
		],
		real_stub={"real": ["clck_gen.CLCKGen (_worker thread, start, stop, send_clck_ind)"],
			"stub": ["clock links (record payloads)", "frame handler (sleeps the planned virtual duration)"],
			"simulated": ["threading.Thread/Event", "time.monotonic_ns", "controller thread issuing start/stop/link changes"]},
	)


def _c15():
	from engines.dump import ENGINE
	return ENGINE, dict(
		level="fault_enumeration", runs_quick=3200, budget_quick_s=50,
		rule="one case = one seeded history of append_msg/append_all/read/reopen operations on the real "
			"DATADumpFile over a simulated disk, followed by crash cuts of the resulting byte stream: EVERY "
			"byte offset when the history has few records (quick <= 5, thorough <= 12), otherwise all record "
			"boundaries +/-3, all header-internal offsets and a seeded sample; each cut is reopened by a fresh "
			"reader and compared with the list of completely written messages; distinct = distinct (record "
			"shape sequence, operation sequence, cut mode); non-trivial = at least one record stored and at "
			"least one crash cut examined. 'exhaustive' refers to nothing here: the history space is sampled",
		assumptions=[
			"record boundaries are measured by writing each message alone with the real writer (no layout assumed)",
			"a crash leaves a prefix of the byte stream (no reordering of writes within the file)",
			"SimFile models POSIX append/seek semantics; 5 % of histories are mirrored onto a real file",
		],
		real_stub={"real": ["data_dump.DATADumpFile/DATADump", "data_msg.TxMsg/RxMsg"],
			"simulated": ["file system (SimDisk/SimFile)", "crash = truncation of the durable byte stream"]},
	)


REGISTRY = {
	"C09": _c09,
	"C15": _c15,
}


def main(argv):
	ap = argparse.ArgumentParser()
	ap.add_argument("prop")
	ap.add_argument("--tier", default=os.environ.get("VERIF_TIER", "quick"), choices=["quick", "thorough"])
	ap.add_argument("--replay")
	a = ap.parse_args(argv)
	if a.prop not in REGISTRY:
		print("unknown property %s" % a.prop)
		return 2
	from sim import runner
	engine, kw = REGISTRY[a.prop]()
	try:
		if a.replay:
			return runner.replay(engine, a.prop, a.replay)
		return runner.run_check(engine, a.prop, a.tier, **kw)
	except Exception:
		import traceback
		traceback.print_exc()
		print("HARNESS-ERROR: %s" % sys.exc_info()[1])
		return 2
