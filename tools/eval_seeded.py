#!/usr/bin/env python3
# Evaluate a seeded change produced by an independent sub-agent:
#   tools/eval_seeded.py <PROP> <dir with patch.diff, demo.py|demo.sh, meta.json> [--keep-as NAME] [--checks C02,C03]
# 1. demo on a clean scratch copy -> must exit 0
# 2. apply patch, demo -> must exit 1, repository test-suite -> must pass
# 3. run the property's quick check (and optionally others) with VERIF_REPO=<patched copy>
# 4. with --keep-as, store everything under /verif/seeded/<NAME>/
import json
import os
import shutil
import subprocess
import sys

VERIF = os.path.dirname(os.path.dirname(os.path.abspath(__file__)))
sys.path.insert(0, VERIF)
from selftest.sensitivity import make_copy, run_check, run_suite  # noqa: E402


def run_demo(d, root):
	for name, cmd in (("demo.py", ["/venv/bin/python"]), ("demo.sh", ["sh"])):
		p = os.path.join(d, name)
		if os.path.exists(p):
			r = subprocess.run(cmd + [p, root], stdout=subprocess.PIPE, stderr=subprocess.STDOUT, text=True, timeout=600)
			return r.returncode, r.stdout[-600:]
	return None, "no demo"


def main():
	prop = sys.argv[1]
	d = sys.argv[2]
	keep = None
	checks = [prop]
	for a in sys.argv[3:]:
		if a.startswith("--keep-as="):
			keep = a.split("=", 1)[1]
		if a.startswith("--checks="):
			checks = a.split("=", 1)[1].split(",")
	out = {"property": prop, "dir": d}
	root = make_copy()
	try:
		subprocess.run(["git", "init", "-q"], cwd=root)
		rc0, t0 = run_demo(d, root)
		out["demo_clean"] = rc0
		r = subprocess.run(["patch", "-p1", "--no-backup-if-mismatch", "-i", os.path.join(d, "patch.diff")], cwd=root,
			stdout=subprocess.PIPE, stderr=subprocess.STDOUT, text=True)
		out["patch_applies"] = r.returncode == 0
		if r.returncode != 0:
			out["patch_output"] = r.stdout[-400:]
		rc1, t1 = run_demo(d, root)
		out["demo_patched"] = rc1
		ok, tail = run_suite(root)
		out["suite_passes"] = ok
		out["checks"] = {}
		for c in checks:
			rc, text, dt = run_check(c, root, timeout=900)
			clause = ""
			for line in text.splitlines():
				if line.strip().startswith("clause="):
					clause = line.strip()[:260]
					break
			out["checks"][c] = {"exit": rc, "first": clause, "wall_s": round(dt, 1)}
	finally:
		shutil.rmtree(root, ignore_errors=True)
	print(json.dumps(out, indent=1))
	if keep:
		dst = os.path.join(VERIF, "seeded", keep)
		os.makedirs(dst, exist_ok=True)
		for f in os.listdir(d):
			if f in ("patch.diff", "demo.py", "demo.sh"):
				shutil.copy(os.path.join(d, f), os.path.join(dst, f))
		meta = {}
		mp = os.path.join(d, "meta.json")
		if os.path.exists(mp):
			try:
				meta = json.load(open(mp))
			except Exception:
				meta = {"raw": open(mp).read()[:2000]}
		meta["evaluation"] = out
		meta["evaluation"].pop("dir", None)
		with open(os.path.join(dst, "meta.json"), "w") as f:
			json.dump(meta, f, indent=1)


if __name__ == "__main__":
	main()
