#!/usr/bin/env python3
# Regression over every kept seeded breakage: apply seeded/<id>/patch.diff to a scratch copy,
# run the quick check of its property (VERIF_REPO=<copy>) and report whether it is still
# reported.  tools/reeval_seeded.py [ID-prefix ...]   (exit 1 if one is no longer caught)
import json
import os
import shutil
import subprocess
import sys

VERIF = os.path.dirname(os.path.dirname(os.path.abspath(__file__)))
sys.path.insert(0, VERIF)
from selftest.sensitivity import make_copy, run_check  # noqa: E402


def main():
	want = sys.argv[1:]
	ids = sorted(d for d in os.listdir(os.path.join(VERIF, "seeded")) if not d.startswith("refactor"))
	if want:
		ids = [i for i in ids if any(i.startswith(w) for w in want)]
	missed = []
	for i in ids:
		d = os.path.join(VERIF, "seeded", i)
		prop = i[:3]
		root = make_copy()
		try:
			r = subprocess.run(["patch", "-p1", "--no-backup-if-mismatch", "-i", os.path.join(d, "patch.diff")],
				cwd=root, stdout=subprocess.PIPE, stderr=subprocess.STDOUT, text=True)
			if r.returncode != 0:
				print("%-10s patch does not apply any more (the repository moved on)" % i, flush=True)
				continue
			rc, text, dt = run_check(prop, root, timeout=900)
			first = ""
			for line in text.splitlines():
				if line.strip().startswith("clause=") or "HARNESS-ERROR" in line:
					first = line.strip()[:140]
					break
			print("%-10s exit=%d %5.1fs %s" % (i, rc, dt, first), flush=True)
			if rc != 1:
				missed.append(i)
		finally:
			shutil.rmtree(root, ignore_errors=True)
	print("reeval: %d seeded changes, %d not reported: %s" % (len(ids), len(missed), " ".join(missed)))
	return 1 if missed else 0


if __name__ == "__main__":
	sys.exit(main())
