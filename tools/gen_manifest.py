#!/usr/bin/env python3
# Regenerates /verif/MANIFEST.json from the table below (run after adding a check).
import json
import os
import sys

VERIF = os.path.dirname(os.path.dirname(os.path.abspath(__file__)))
sys.path.insert(0, VERIF)

NA = {
	"C01": "pure function of one message (parse(gen(m)) == m): no schedule, clock, peer, fault or history in the statement; deterministic simulation has nothing to decide (DESIGN.md §5/C01)",
	"C04": "pure function of the message / byte string compared across two implementations; nothing depends on delivery, time or interleaving (DESIGN.md §5/C04)",
	"C07": "pure function of (HSN, MAIO, MA, FN), exhaustively enumerable; nothing to schedule or fault (DESIGN.md §5/C07)",
	"C11": "two static tables compared over a finite index space: enumeration, not simulation; no time, fault or schedule involved (DESIGN.md §5/C11)",
	"C13": "a predicate on one message object; no interleaving, clock or fault (DESIGN.md §5/C13)",
	"C16": "pure encode/decode laws quantified over protocol definitions and values; no concurrency, time, I/O or peer (DESIGN.md §5/C16)",
	"C17": "pure encode/decode structure of PDU definitions; no concurrency, time, I/O or peer (DESIGN.md §5/C17)",
	"C19": "arithmetic identity walked completely over one hyperframe: enumeration, nothing to fault or schedule (DESIGN.md §5/C19)",
	"C20": "pure C function of (cell allocation, bitmap); memory safety of a pure function is a fuzzing/proof question, not a schedule or fault one (DESIGN.md §5/C20)",
}

CHECKS = {
	"C09": dict(engine="clck", category="exploration", design_ref="§5/C09",
		technique="deterministic simulation: real CLCKGen thread on a virtual clock, seeded handler-overrun / stall / wake-latency faults, timing oracle over the recorded history",
		text="Seeded search over configurations (start frame incl. the hyperframe wrap, indication period, link sets), start/stop/link histories and per-tick fault patterns; every run is judged by a behavioural timing model (no accumulated drift, resync after overrun, frame numbering, indication payload and recipients). Sampling, not proof.",
		note="Trusts the simulator kernel (virtual time, baton-passed threads) and the oracle in engines/clck.py; tick period accepted within 4 615 000 +/- 2 ns; CPython 3.12 semantics."),
}

PENDING = {pid: "check under construction (engine `%s`, see DESIGN.md §5); not claimed yet" % eng for pid, eng in {
	"C02": "um", "C03": "um", "C05": "um", "C06": "sercomm", "C08": "tdma", "C10": "um", "C12": "um",
	"C14": "um+dump+trxcon", "C15": "dump", "C18": "um"}.items()}


def main():
	from checks.main import REGISTRY
	checks = []
	na = [{"property_id": k, "reason": v} for k, v in sorted(NA.items())]
	for pid in sorted(CHECKS):
		c = CHECKS[pid]
		if pid not in REGISTRY:
			na.append({"property_id": pid, "reason": "check under construction (engine `%s`); not claimed yet" % c["engine"]})
			continue
		checks.append({
			"property_id": pid,
			"quick_cmd": "bin/check %s --tier quick" % pid,
			"thorough_cmd": "bin/check %s --tier thorough" % pid,
			"evidence_file": "evidence/%s.json" % pid,
			"replay_cmd_template": "bin/check %s --replay {path}" % pid,
			"engine": c["engine"],
			"level_claimed": {"category": c["category"], "text": c["text"], "design_ref": c["design_ref"]},
			"level_note": c["note"],
			"technique": c["technique"],
		})
	for pid, reason in sorted(PENDING.items()):
		if pid not in REGISTRY:
			na.append({"property_id": pid, "reason": reason})
	na.sort(key=lambda e: e["property_id"])
	engines = {}
	for c in checks:
		engines.setdefault(c["engine"], []).append(c["property_id"])
	man = {
		"version": 1,
		"setup_cmd": "bin/setup",
		"hooks": {
			"guard": "OSMOCOM_BB_VERIF",
			"enable": "no hook commits exist: every seam is a module attribute or a compile-time shim; checks read /repo's working tree directly (VERIF_REPO overrides the path)",
			"baseline_off_cmd": "cd /repo && /venv/bin/python -m pytest -q -p no:cacheprovider --timeout=900 --continue-on-collection-errors",
			"source_commits": [],
			"add_only": True,
		},
		"engines": [{"name": n, "path": "engines/%s.py" % n, "serves_properties": sorted(p),
			"kind_free_text": "deterministic simulation with fault injection (seeded plans, virtual time, simulated threads/network/files)"}
			for n, p in sorted(engines.items())],
		"checks": checks,
		"not_applicable": na,
		"notes": "All checks: bin/check <ID> --tier quick|thorough [--replay F]; exit 0 held / 1 VIOLATION / 2 harness error. VERIF_SEED, VERIF_BUDGET_S, VERIF_WORKERS, VERIF_REPO are honoured. See DESIGN.md.",
	}
	with open(os.path.join(VERIF, "MANIFEST.json"), "w") as f:
		json.dump(man, f, indent=1)
		f.write("\n")
	print("MANIFEST.json: %d checks, %d not applicable" % (len(checks), len(na)))


if __name__ == "__main__":
	main()
