#!/usr/bin/env python3
# Regenerates /verif/MANIFEST.json from the table below (run after adding a check).
import json
import os
import sys

VERIF = os.path.dirname(os.path.dirname(os.path.abspath(__file__)))
sys.path.insert(0, VERIF)

NA = {
	"C01": "pure function of one message (parse(gen(m)) == m): no schedule, clock, peer, fault or history in the statement; deterministic simulation has nothing to decide (DESIGN.md §5/C01)",
	"C04": "pure function of the message / byte string compared across two implementations; nothing depends on delivery, time or interleaving (DESIGN.md §5/C04)",
	"C07": "pure function of (HSN, MAIO, MA, FN), exhaustively enumerable; nothing to schedule or fault (DESIGN.md §5/C07)",
	"C11": "two static tables compared over a finite index space: enumeration, not simulation; no time, fault or schedule involved (DESIGN.md §5/C11)",
	"C13": "a predicate on one message object; no interleaving, clock or fault (DESIGN.md §5/C13)",
	"C16": "pure encode/decode laws quantified over protocol definitions and values; no concurrency, time, I/O or peer (DESIGN.md §5/C16)",
	"C17": "pure encode/decode structure of PDU definitions; no concurrency, time, I/O or peer (DESIGN.md §5/C17)",
	"C19": "arithmetic identity walked completely over one hyperframe: enumeration, nothing to fault or schedule (DESIGN.md §5/C19)",
	"C20": "pure C function of (cell allocation, bitmap); memory safety of a pure function is a fuzzing/proof question, not a schedule or fault one (DESIGN.md §5/C20)",
}

CHECKS = {
	"C09": dict(engine="clck", category="exploration", design_ref="§5/C09",
		technique="deterministic simulation: real CLCKGen thread on a virtual clock, seeded handler-overrun / stall / wake-latency faults, timing oracle over the recorded history",
		text="Seeded search over configurations (start frame incl. the hyperframe wrap, indication period, link sets), start/stop/link histories and per-tick fault patterns; every run is judged by a behavioural timing model (no accumulated drift, resync after overrun, frame numbering, indication payload and recipients). Sampling, not proof.",
		note="Trusts the simulator kernel (virtual time, baton-passed threads) and the oracle in engines/clck.py; tick period accepted within 4 615 000 +/- 2 ns; CPython 3.12 semantics."),
	"C15": dict(engine="dump", category="fault_enumeration", design_ref="§5/C15",
		technique="deterministic simulation of the capture file on a simulated disk; crash-point enumeration: every truncation offset of each generated history (sampled offsets for long ones), reopened and compared with a reference list",
		text="Seeded histories of append/read/reopen on the real DATADumpFile; for short histories every byte offset of the file is a crash point, for long ones record boundaries +/-3, header-internal offsets and a seeded sample; every cut is read back (full read, random access, skip/count) against the model of completely written records. The history space is sampled, the offset space of small histories is enumerated.",
		note="Trusts SimFile's POSIX append/seek semantics (5 % of histories are mirrored onto a real file), the assumption that a crash leaves a prefix of the byte stream, and the field-by-field reference in engines/dump.py."),
	"C08": dict(engine="tdma", category="exploration", design_ref="§5/C08",
		technique="deterministic simulation: real tdma_sched.c driven by simulated frame interrupts and main-context calls, seeded reset/overflow/missed-interrupt faults, lock-step reference model",
		text="Seeded operation histories (schedule, schedule_set, frame, bare advance/execute, reset, callbacks that schedule or reset from inside execute, overflow bursts) against a frame->items model: exactly-once, right frame, parameters, priority order, empty executed bucket, return values. Sampling, not proof.",
		note="Trusts the C harness (csrc/tdma) and the model in engines/tdma.py; callbacks report success; don't-cares listed in the evidence assumptions."),
	"C06": dict(engine="sercomm", category="exploration", design_ref="§5/C06",
		technique="deterministic simulation: two real sercomm.c instances (host build and target build) joined by simulated UART wires, seeded noise / over-long-frame faults and TX-interrupt points, wire-grammar + priority + delivery oracles",
		text="Seeded send/pump/noise/over-long histories in both directions; every pulled octet is checked against a reference HDLC encoder and priority-queue model, every callback against the frame that caused it, memory guard zones and panic hooks catch corruption, bounded liveness after the last fault. Sampling, not proof. Two genuine defects are listed in known_findings.json.",
		note="Trusts the C harness (csrc/sercomm, malloc guard zones), the reference encoder and queue model in engines/sercomm.py; interrupts delivered at call granularity only."),
}

UM = dict(engine="um", category="exploration",
	technique="deterministic simulation: the real fake_trx.Application (both threads, all transceivers) on a simulated UDP network and virtual clock, seeded L1 stub actors and network faults, lock-step refinement against a reference model of the virtual Um interface",
	note="Trusts the simulator kernel, sim/refcodec.py and the reference model engines/um_model.py (DESIGN.md Appendix A); coarse schedules (commands and ticks atomic) in most runs, line-level schedules in the race profiles (DESIGN.md 9.2, 9.7); CPython 3.12.")
for _pid, _ref, _txt in (
	("C02", "§5/C02", "Routing oracle: per emitted burst the set of receiving sockets equals the running peers whose Rx frequency in that frame (fixed or hopping per TS 45.002 6.2.3, resolved independently) equals the sender's Tx frequency; never the sender, a powered-off or detuned transceiver."),
	("C03", "§5/C03", "Exactly-once oracle: every accepted burst ends as emitted in its own tick, reported stale, cleared by power-off or still queued; coarse histories (any advance, duplicates, power cycles, version changes)."),
	("C05", "§5/C05", "Per delivered CMD datagram exactly one well-formed response to the sender's address with model status/results after the configured delay, nothing for non-CMD datagrams, effects visible through later traffic."),
	("C10", "§5/C10", "Every forwarded datagram is decoded by the reference codec: recipient's header version, legacy padding, FN/TN, soft bits, RSSI/ToA/C-I model values or windows, modulation and TSC of the training sequence present; nothing sent when metadata leave the protocol ranges."),
	("C12", "§5/C12", "Power/children/clock model: bound sockets equal the documented port plan, destinations are +100/+101/+102, POWERON status, clock indications to exactly the running clock owners at multiples of the period, ticks iff a clock owner runs, restart at the start frame, hopping and queue forgotten on POWEROFF."),
	("C18", "§5/C18", "Drop-counter model per receiver: FAKE_DROP n [period] suppresses exactly n matching bursts, RFMUTE on either side suppresses all; one NOPE.ind with noise values on v1 links, nothing on v0; rejected commands change nothing."),
):
	_r2 = {"C02": "30", "C10": "30", "C18": "30", "C05": "25", "C03": "15", "C12": "10"}[_pid]
	CHECKS[_pid] = dict(UM, design_ref=_ref, text=_txt + " Seeded search over configurations, histories and network faults; " + _r2 +
		" % of the runs race one command or burst arrival against one clock tick at source-line granularity and judge what every recipient gets "
		"against every order of the two (versions of the model state, DESIGN.md 9.7); sampling, not proof.")

CHECKS["C14"] = dict(engine="um+dump+trxcon", category="exploration", design_ref="§5/C14",
	technique="deterministic simulation with hostile-input fault injection: seeded valid sessions of the real fake_trx.Application with malformed control/data datagrams injected at arbitrary points, damaged capture files on the simulated disk, hostile datagrams into trxcon's trx_if.c built with ASan/UBSan; oracles: no simulated thread dies, parsers raise only ValueError, later traffic still served per the reference model",
	text="Seeded search over (session, injection point, mutation kind); every run is judged by thread-death detection plus all session oracles of the um engine for the valid traffic that follows; capture readers must not raise on rotten files. Sampling, not proof.",
	note="Trusts the simulator kernel, the reference model and codec; partial effects of rejected multi-argument commands are don't-cares; see evidence for which sub-engines ran.")

PENDING = {pid: "check under construction (engine `%s`, see DESIGN.md §5); not claimed yet" % eng for pid, eng in {
	"C02": "um", "C03": "um", "C05": "um", "C06": "sercomm", "C08": "tdma", "C10": "um", "C12": "um",
	"C14": "um+dump+trxcon", "C15": "dump", "C18": "um"}.items()}


def main():
	from checks.main import REGISTRY
	checks = []
	na = [{"property_id": k, "reason": v} for k, v in sorted(NA.items())]
	for pid in sorted(CHECKS):
		c = CHECKS[pid]
		if pid not in REGISTRY:
			na.append({"property_id": pid, "reason": "check under construction (engine `%s`); not claimed yet" % c["engine"]})
			continue
		checks.append({
			"property_id": pid,
			"quick_cmd": "bin/check %s --tier quick" % pid,
			"thorough_cmd": "bin/check %s --tier thorough" % pid,
			"evidence_file": "evidence/%s.json" % pid,
			"replay_cmd_template": "bin/check %s --replay {path}" % pid,
			"engine": c["engine"],
			"level_claimed": {"category": c["category"], "text": c["text"], "design_ref": c["design_ref"]},
			"level_note": c["note"],
			"technique": c["technique"],
		})
	for pid, reason in sorted(PENDING.items()):
		if pid not in REGISTRY:
			na.append({"property_id": pid, "reason": reason})
	na.sort(key=lambda e: e["property_id"])
	engines = {}
	for c in checks:
		engines.setdefault(c["engine"], []).append(c["property_id"])
	man = {
		"version": 1,
		"setup_cmd": "bin/setup",
		"hooks": {
			"guard": "OSMOCOM_BB_VERIF",
			"enable": "no hook commits exist: every seam is a module attribute or a compile-time shim; checks read /repo's working tree directly (VERIF_REPO overrides the path)",
			"baseline_off_cmd": "cd /repo && /venv/bin/python -m pytest -q -p no:cacheprovider --timeout=900 --continue-on-collection-errors",
			"source_commits": [],
			"add_only": True,
		},
		"engines": [{"name": n, "path": "engines/%s.py" % n, "serves_properties": sorted(p),
			"kind_free_text": "deterministic simulation with fault injection (seeded plans, virtual time, simulated threads/network/files)"}
			for n, p in sorted(engines.items())],
		"checks": checks,
		"not_applicable": na,
		"notes": "All checks: bin/check <ID> --tier quick|thorough [--replay F]; exit 0 held / 1 VIOLATION / 2 harness error. VERIF_SEED, VERIF_BUDGET_S, VERIF_WORKERS, VERIF_REPO are honoured. See DESIGN.md.",
	}
	with open(os.path.join(VERIF, "MANIFEST.json"), "w") as f:
		json.dump(man, f, indent=1)
		f.write("\n")
	print("MANIFEST.json: %d checks, %d not applicable" % (len(checks), len(na)))


if __name__ == "__main__":
	main()
