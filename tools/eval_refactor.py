#!/usr/bin/env python3
# Evaluate a behaviour-preserving refactoring written by an independent sub-agent:
#   tools/eval_refactor.py <dir with patch.diff, meta.json> [--keep-as NAME] [--checks C02,C03,...]
# applies the patch to a scratch copy, runs the repository's tests and every listed quick
# check with VERIF_REPO=<copy>; all of them are expected to stay silent (exit 0).
import json
import os
import shutil
import subprocess
import sys

VERIF = os.path.dirname(os.path.dirname(os.path.abspath(__file__)))
sys.path.insert(0, VERIF)
from selftest.sensitivity import make_copy, run_check, run_suite  # noqa: E402

ALL = ["C02", "C03", "C05", "C06", "C08", "C09", "C10", "C12", "C14", "C15", "C18"]


def main():
	d = sys.argv[1]
	keep = None
	checks = ALL
	for a in sys.argv[2:]:
		if a.startswith("--keep-as="):
			keep = a.split("=", 1)[1]
		if a.startswith("--checks="):
			checks = a.split("=", 1)[1].split(",")
	out = {"dir": d}
	root = make_copy()
	try:
		r = subprocess.run(["patch", "-p1", "--no-backup-if-mismatch", "-i", os.path.join(d, "patch.diff")], cwd=root,
			stdout=subprocess.PIPE, stderr=subprocess.STDOUT, text=True)
		out["patch_applies"] = r.returncode == 0
		if r.returncode != 0:
			out["patch_output"] = r.stdout[-400:]
		ok, tail = run_suite(root)
		out["suite_passes"] = ok
		out["checks"] = {}
		for c in checks:
			rc, text, dt = run_check(c, root, timeout=900)
			first = ""
			for line in text.splitlines():
				if line.strip().startswith("clause=") or "HARNESS-ERROR" in line:
					first = line.strip()[:300]
					break
			out["checks"][c] = {"exit": rc, "first": first, "wall_s": round(dt, 1)}
	finally:
		shutil.rmtree(root, ignore_errors=True)
	print(json.dumps(out, indent=1))
	if keep:
		dst = os.path.join(VERIF, "seeded", keep)
		os.makedirs(dst, exist_ok=True)
		shutil.copy(os.path.join(d, "patch.diff"), os.path.join(dst, "patch.diff"))
		meta = {}
		mp = os.path.join(d, "meta.json")
		if os.path.exists(mp):
			try:
				meta = json.load(open(mp))
			except Exception:
				meta = {"raw": open(mp).read()[:2000]}
		meta["kind"] = "behaviour-preserving refactoring: every check is expected to stay silent"
		out.pop("dir", None)
		meta["evaluation"] = out
		with open(os.path.join(dst, "meta.json"), "w") as f:
			json.dump(meta, f, indent=1)


if __name__ == "__main__":
	main()
