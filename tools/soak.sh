#!/bin/sh
# usage: tools/soak.sh <tier> <first seed> <last seed> [props...]  — runs checks over many VERIF_SEED values,
# evidence and replays go to a scratch directory; prints every non-zero exit with its output tail.
tier="$1"; a="$2"; b="$3"; shift 3
props="${*:-C02 C03 C05 C06 C08 C09 C10 C12 C14 C15 C18}"
HERE="$(cd "$(dirname "$0")/.." && pwd)"
out="${SOAK_DIR:-$HERE/soak-out}"
mkdir -p "$out"
export VERIF_EVIDENCE_DIR="$out/evidence" VERIF_REPLAY_DIR="$out/replays"
s="$a"
while [ "$s" -le "$b" ]; do
	for p in $props; do
		VERIF_SEED="$s" "$HERE/bin/check" "$p" --tier "$tier" > "$out/last.log" 2>&1
		rc=$?
		tail -1 "$out/last.log" | sed "s/^/seed=$s rc=$rc /"
		if [ "$rc" -ne 0 ]; then
			echo "=== NONZERO seed=$s prop=$p rc=$rc"; tail -12 "$out/last.log"
		fi
	done
	s=$((s + 1))
done
