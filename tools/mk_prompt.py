#!/usr/bin/env python3
# Build the prompt for a sub-agent that is to write seeded changes for one property:
#   tools/mk_prompt.py <PROP> <TAG> <extra-requirement-file|-> > prompt.txt
# The prompt carries the property text only (nothing of /verif) and names the scratch
# worktree /tmp/wt-<TAG> and the output directory /tmp/out-<TAG>.
import json
import os
import sys

VERIF = os.path.dirname(os.path.dirname(os.path.abspath(__file__)))

HEAD = """You are a careful software engineer playing the role of someone who introduces a *realistic, subtle regression* into a code base. You work ONLY inside your own scratch git worktree of the osmocom-bb repository at {wt}. Do not read or write anything under /verif, /repo or /root. Do not use the network. Use /venv/bin/python (3.12) for Python; gcc is available for C.

The repository is OsmocomBB; its Python part (src/target/trx_toolkit) is a TRXD/TRXC codec and a fake transceiver simulator (fake_trx). The existing test-suite is run with:
    cd {wt} && /venv/bin/python -m pytest -q -p no:cacheprovider --deselect src/target/trx_toolkit/test_clck_gen.py::CLCKGen_Test::test_no_timing_error_accumulated src/target/trx_toolkit
(it only covers codec.py, data_msg.py, data_dump.py and one clck_gen constant; all tests must keep passing with your change; that one deselected test is timing-flaky and irrelevant).

Here is a semantic property of the code base that currently holds:

Property {id}: {title}

Statement: {statement}

Quantifier (schedules, configurations): {quantifier}

Anchor files: {anchors}


Your task: produce TWO different changes (each as its own patch) to the source code under {wt} that each BREAK this property while (1) everything still compiles/imports, (2) the existing test-suite above still passes, and (3) the change looks like a plausible commit a developer might make by mistake (a refactoring slip, an optimisation, an off-by-one, a wrongly "simplified" condition, state not reset, two sites that each look fine alone, ...). Prefer breakages that need something SPECIFIC to manifest — a particular interleaving, a fault at a particular point, a multi-step sequence of operations, an unusual but legal input or configuration, a boundary value — rather than ones that any ordinary use would expose at once. Do not just delete the feature or insert an obviously malicious special case. Only touch files that are part of the implementation (not tests).

For each change:
 - write the patch as a unified diff against the worktree HEAD to {out}/<n>/patch.diff (the OUT directory is {out}; n = 1, 2), produced with `git -C {wt} diff > .../patch.diff`, then reset the worktree (`git -C {wt} checkout -- .`) before working on the next one;
 - write a small standalone demonstration {out}/<n>/demo.py (or demo.sh) that takes the path of a repository checkout as its first argument, exercises the real code from that checkout (e.g. by putting <checkout>/src/target/trx_toolkit on sys.path; for socket-using classes you may monkeypatch the module's `socket`/`select`/`threading`/`time` attributes or call the methods directly with small fakes; for C code compile the file with small stubs), exits 0 when the property holds and exits 1 when it is violated. It must exit 0 on the unmodified checkout and 1 with your patch applied. Verify both yourself (apply with `git -C {wt} apply`, run demo, run the test-suite, un-apply, run demo again).
 - write {out}/<n>/meta.json: {{"property": "<id>", "summary": "<one sentence: what was changed>", "needs": "<what specific condition is needed for the breakage to manifest>", "files": [...], "verified": "<commands you ran and their exit codes>"}}.

Leave the worktree clean (no modifications, no untracked files) when you finish. Final answer: a short summary of the two changes and where the files are.
"""


def main():
	pid, tag, extra = sys.argv[1], sys.argv[2], sys.argv[3]
	p = None
	for line in open(os.path.join(VERIF, "properties.jsonl")):
		d = json.loads(line)
		if d["id"] == pid:
			p = d
	anchors = ", ".join(p["anchors"]["files"])
	q = p["quantifier"]
	s = HEAD.format(wt="/tmp/wt-" + tag, out="/tmp/out-" + tag, id=pid, title=p["title"],
		statement=p["statement"], quantifier=q["text"], anchors=anchors)
	s = s.replace("Quantifier (schedules, configurations)", "Quantifier (%s)" % ", ".join(q["over"]))
	if extra != "-":
		s += "\nAdditional requirement for this round: " + open(extra).read().strip() + "\n"
	sys.stdout.write(s)


if __name__ == "__main__":
	main()
