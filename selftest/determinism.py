# bin/selftest determinism [PROP ...] [--n=200]
# For every property's engine: N seeds are executed (plan generation + simulated run) in
#   A: 16 worker processes, PYTHONHASHSEED=0
#   B:  1 worker process,   PYTHONHASHSEED=0
#   C: 16 worker processes, a fresh interpreter with PYTHONHASHSEED=12345
# and the history digests must be identical seed by seed.

import json
import os
import subprocess
import sys

VERIF = os.path.dirname(os.path.dirname(os.path.abspath(__file__)))

CHILD = r'''
import sys, json, os
sys.path.insert(0, %(verif)r)
import concurrent.futures as cf, multiprocessing as mp
from checks.main import REGISTRY
prop, tier, workers, lo, hi = sys.argv[1], sys.argv[2], int(sys.argv[3]), int(sys.argv[4]), int(sys.argv[5])
engine, kw = REGISTRY[prop]()
engine.setup()
def run(chunk):
	out = {}
	for s in chunk:
		plan = engine.generate(s, prop, tier)
		r = engine.execute(plan, prop)
		out[s] = r.digest
	return out
seeds = list(range(lo, hi))
chunks = [seeds[i::workers * 2] for i in range(workers * 2)]
res = {}
with cf.ProcessPoolExecutor(max_workers=workers, mp_context=mp.get_context("fork")) as ex:
	for o in ex.map(run, [c for c in chunks if c]):
		res.update(o)
print(json.dumps({str(k): v for k, v in res.items()}))
'''


def digests(prop, tier, workers, lo, hi, hashseed):
	env = dict(os.environ)
	env["PYTHONHASHSEED"] = str(hashseed)
	env["PYTHONDONTWRITEBYTECODE"] = "1"
	py = os.environ.get("VERIF_PYTHON", "/venv/bin/python")
	p = subprocess.run([py, "-B", "-c", CHILD % {"verif": VERIF}, prop, tier, str(workers), str(lo), str(hi)],
		env=env, stdout=subprocess.PIPE, stderr=subprocess.PIPE, text=True, timeout=3600, cwd=VERIF)
	if p.returncode != 0:
		raise RuntimeError("child failed for %s: %s" % (prop, p.stderr[-1500:]))
	return json.loads(p.stdout.strip().splitlines()[-1])


def main(argv):
	sys.path.insert(0, VERIF)
	from checks.main import REGISTRY
	props = [a for a in argv if not a.startswith("-")] or sorted(REGISTRY)
	n = 200
	tier = "quick"
	for a in argv:
		if a.startswith("--n="):
			n = int(a.split("=", 1)[1])
		if a.startswith("--tier="):
			tier = a.split("=", 1)[1]
	lo = 7_000_003
	bad = 0
	for prop in props:
		a = digests(prop, tier, 16, lo, lo + n, 0)
		b = digests(prop, tier, 1, lo, lo + n, 0)
		c = digests(prop, tier, 16, lo, lo + n, 12345)
		diff_ab = [s for s in a if a[s] != b.get(s)]
		diff_ac = [s for s in a if a[s] != c.get(s)]
		ok = not diff_ab and not diff_ac and len(a) == n
		print("%-4s %d seeds: 16-vs-1 workers %d differ, hashseed 0-vs-12345 %d differ %s" % (
			prop, len(a), len(diff_ab), len(diff_ac), "ok" if ok else "MISMATCH %s" % (diff_ab + diff_ac)[:5]))
		sys.stdout.flush()
		if not ok:
			bad += 1
	print("determinism: %d properties, %d with mismatches" % (len(props), bad))
	return 1 if bad else 0


if __name__ == "__main__":
	sys.exit(main(sys.argv[1:]))
