# bin/selftest refbase — cross-validate the trusted base (sim/refcodec.py) against independent
# in-tree C: hopping against firmware/layer1/rfch.c, normal-burst / access-burst training
# sequences against trxcon's tables.  Development-time only: no check depends on it.
import ctypes
import os
import random
import re
import sys

VERIF = os.path.dirname(os.path.dirname(os.path.abspath(__file__)))


def main(argv):
	sys.path.insert(0, VERIF)
	from sim import cbuild, refcodec as rc
	inc = [cbuild.repo_path("src/target/firmware/include"), cbuild.repo_path("src/shared/libosmocore/include"),
		os.path.join(VERIF, "csrc", "tdma", "shim")]
	so = cbuild.build_so("refhop", [os.path.join(VERIF, "csrc", "refbase", "hop.c")],
		cflags=['-DRFCH_C="%s"' % cbuild.repo_path("src/target/firmware/layer1/rfch.c")], idirafter=inc)
	lib = ctypes.CDLL(so)
	lib.ref_hop.argtypes = [ctypes.c_uint32, ctypes.c_int, ctypes.c_int, ctypes.c_int]
	r = random.Random(1)
	bad = 0
	n_cases = 0
	for n in range(1, 65):
		for _ in range(400):
			hsn = r.randrange(64)
			maio = r.randrange(64)
			fn = r.randrange(rc.HYPER)
			n_cases += 1
			if lib.ref_hop(fn, hsn, maio, n) != rc.hop_mai(hsn, maio, n, fn):
				bad += 1
				if bad < 5:
					print("hopping differs: fn=%d hsn=%d maio=%d n=%d C=%d py=%d" % (fn, hsn, maio, n, lib.ref_hop(fn, hsn, maio, n), rc.hop_mai(hsn, maio, n, fn)))
	print("hopping: %d cases, %d differ from rfch.c" % (n_cases, bad))
	# training sequences
	src = open(cbuild.repo_path("src/host/trxcon/src/sched_lchan_common.c")).read()
	m = re.search(r"l1sched_nb_training_bits\[8\]\[26\] = \{(.*?)\n\};", src, re.S)
	rows = re.findall(r"\{([^{}]*)\}", m.group(1))
	nb_c = [bytes(int(x) for x in re.findall(r"[01]", row)) for row in rows]
	nb_py = [seq for tsc, bt, seq in sorted((t for t in rc.TS if t[1] == "NB"))]
	ok_nb = nb_c == nb_py
	src = open(cbuild.repo_path("src/host/trxcon/src/sched_lchan_rach.c")).read()
	ab_c = re.findall(r'\[RACH_SYNCH_SEQ_TS\d\] = "([01]+)"', src)
	ab_py = {tsc: seq for tsc, bt, seq in rc.TS if bt == "AB"}
	ok_ab = all(bytes(int(c) for c in s) == ab_py[i] for i, s in enumerate(ab_c))
	print("normal-burst training sequences vs trxcon: %s; access-burst TS0-2 vs trxcon: %s" % ("equal" if ok_nb else "DIFFER", "equal" if ok_ab else "DIFFER"))
	return 1 if (bad or not ok_nb or not ok_ab) else 0


if __name__ == "__main__":
	sys.exit(main(sys.argv[1:]))
