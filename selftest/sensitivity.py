# bin/selftest sensitivity [PROP ...] — apply each catalogue mutant to a scratch copy of the
# sources the checks read (made outside /repo and /verif, removed immediately afterwards),
# run the property's quick check with VERIF_REPO pointing at the copy, and compare the exit
# status with the expectation: "caught" mutants must give exit 1, "silent" ones (semantics
# preserving refactorings) exit 0.  The pristine copy must give exit 0.

import json
import os
import shutil
import subprocess
import sys
import tempfile
import time

VERIF = os.path.dirname(os.path.dirname(os.path.abspath(__file__)))
REPO = os.environ.get("VERIF_REPO", "/repo")

# Only what the checks read is copied (a few MB).
COPY_DIRS = [
	"src/target/trx_toolkit",
	"src/host/trxcon",
	"src/target/firmware/comm",
	"src/target/firmware/layer1",
	"src/target/firmware/include",
	"src/shared/libosmocore/include",
	"src/shared/libosmocore/src",
]


def make_copy():
	d = tempfile.mkdtemp(prefix="vp-scratch.")
	for rel in COPY_DIRS:
		src = os.path.join(REPO, rel)
		if os.path.isdir(src):
			shutil.copytree(src, os.path.join(d, rel), symlinks=True,
				ignore=shutil.ignore_patterns("*.o", "*.a", "*.pyc", "__pycache__", ".deps"))
	return d


def apply_mutant(root, m):
	for ed in m["edits"]:
		p = os.path.join(root, ed["file"])
		s = open(p).read()
		if s.count(ed["old"]) != 1:
			raise RuntimeError("mutant %s: pattern occurs %d times in %s" % (m["id"], s.count(ed["old"]), ed["file"]))
		s = s.replace(ed["old"], ed["new"])
		open(p, "w").write(s)


def run_check(prop, root, timeout=600, extra_env=None):
	env = dict(os.environ)
	env["VERIF_REPO"] = root
	env["VERIF_EVIDENCE_DIR"] = os.path.join(root, "_evidence")
	env["VERIF_REPLAY_DIR"] = os.path.join(root, "_replays")
	env.setdefault("VERIF_MINIMISE_S", "20")
	if extra_env:
		env.update(extra_env)
	t0 = time.time()
	p = subprocess.run([os.path.join(VERIF, "bin", "check"), prop, "--tier", "quick"],
		env=env, stdout=subprocess.PIPE, stderr=subprocess.STDOUT, timeout=timeout, text=True)
	return p.returncode, p.stdout, time.time() - t0


def run_suite(root):
	"""The repository's own (baseline) Python tests on the scratch copy: a catalogue mutant is
	only realistic if they still pass."""
	py = os.environ.get("VERIF_PYTHON", "/venv/bin/python")
	p = subprocess.run([py, "-m", "pytest", "-q", "-p", "no:cacheprovider", "-x",
		"--deselect", "src/target/trx_toolkit/test_clck_gen.py::CLCKGen_Test::test_no_timing_error_accumulated",
		"src/target/trx_toolkit"], cwd=root, stdout=subprocess.PIPE, stderr=subprocess.STDOUT, text=True, timeout=600)
	return p.returncode == 0, p.stdout[-800:]


def main(argv):
	from mutants.catalogue import MUTANTS
	props = set(a for a in argv if not a.startswith("-"))
	only = None
	for a in argv:
		if a.startswith("--only="):
			only = set(a.split("=", 1)[1].split(","))
	rows = []
	bad = 0
	todo = [m for m in MUTANTS if (not props or m["prop"] in props) and (only is None or m["id"] in only)]
	if "--no-pristine" not in argv:
		for prop in sorted(set(m["prop"] for m in todo)):
			root = make_copy()
			try:
				rc, out, dt = run_check(prop, root)
			finally:
				shutil.rmtree(root, ignore_errors=True)
			ok = rc == 0
			rows.append((prop, "pristine-copy", "silent", rc, ok, dt))
			print("%-4s %-34s expect=silent exit=%d %s (%.0fs)" % (prop, "pristine-copy", rc, "ok" if ok else "WRONG", dt))
			if not ok:
				bad += 1
				print(out[-1500:])
	for m in todo:
		root = make_copy()
		try:
			try:
				apply_mutant(root, m)
			except RuntimeError as e:
				print("%-4s %-34s CATALOGUE ERROR: %s" % (m["prop"], m["id"], e))
				bad += 1
				continue
			if "--suite" in argv and any(e["file"].endswith(".py") for e in m["edits"]):
				ok_suite, tail = run_suite(root)
				if not ok_suite:
					print("%-4s %-34s BASELINE SUITE FAILS with this mutant (not realistic)" % (m["prop"], m["id"]))
					print(tail)
					bad += 1
			rc, out, dt = run_check(m["prop"], root)
		finally:
			shutil.rmtree(root, ignore_errors=True)
		want = 1 if m["expect"] == "caught" else 0
		ok = rc == want
		clause = ""
		for line in out.splitlines():
			if line.strip().startswith("clause="):
				clause = line.strip()[:110]
				break
		rows.append((m["prop"], m["id"], m["expect"], rc, ok, dt))
		print("%-4s %-34s expect=%-6s exit=%d %s (%.0fs) %s" % (m["prop"], m["id"], m["expect"], rc,
			"ok" if ok else "WRONG", dt, clause))
		sys.stdout.flush()
		if not ok:
			bad += 1
			if "-v" in argv:
				print(out[-2500:])
	print("sensitivity: %d entries, %d wrong" % (len(rows), bad))
	return 1 if bad else 0


if __name__ == "__main__":
	sys.path.insert(0, VERIF)
	sys.exit(main(sys.argv[1:]))
